#!/usr/bin/env python3
"""seedsave.py PROP N DEMO_DEST RUN_REGEX DETECTED_BY CLASS NEEDS...
Archives a confirmed sub-agent change under /verif/seeded/<PROP>-<N>/ (patch.diff, demo, meta.json)."""
import sys, os, shutil, json, re
prop, n, dest, run, detected, cls = sys.argv[1:7]
needs = " ".join(sys.argv[7:])
src = os.environ.get("SEEDROOT", "/tmp/seed") + "/%s/out" % prop
d = "/verif/seeded/%s-%s" % (prop, os.environ.get("SEEDNAME", n))
os.makedirs(d, exist_ok=True)
shutil.copyfile("%s/change%s.diff" % (src, n), d + "/patch.diff")
demo = "%s/demo%s_test.go" % (src, n)
shutil.copyfile(demo, d + "/demo_test.go.txt")
notes = open(src + "/NOTES.md").read()
open(d + "/NOTES.agent.md", "w").write(notes)
meta = dict(
    property=prop, change=int(n),
    needs_to_manifest=needs,
    demonstration=dict(file="demo_test.go.txt", copy_to=dest + "/ (as a _test.go file)", run="go test -vet=off -count=1 -run '%s' ./%s/" % (run, dest)),
    confirmed_by_me=["git apply patch.diff on a scratch worktree of /repo HEAD: go build ./... ok",
                     "go test -vet=off -count=1 ./... : all packages pass with the change",
                     "demonstration fails with the change, passes without it",
                     "lib/seedeval.sh %s %s %s '%s'" % (prop, n, dest, run)],
    detected_by=[x for x in detected.split(",") if x and x != "none"],
    violation_class=cls,
)
json.dump(meta, open(d + "/meta.json", "w"), indent=1)
print("saved", d)
