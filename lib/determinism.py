"""Determinism self-test: the same cases, run in separate OS processes at
GOMAXPROCS 1/4/16 (and twice at each), must produce byte-identical event logs
(compared through a hash of the full log, tape and observations)."""
import os, sys, json


def selftest_determinism(bw, props):
    props = props or [p for p, c in bw.PROPS.items() if c.get("simulated")]
    ncases = int(os.environ.get("BW_DET_CASES", "64"))
    seed = int(os.environ.get("VERIF_SEED", "1") or 1)
    rc = 0
    sc = bw.Scratch("det")
    try:
        built = None
        for prop in props:
            want = (tuple(bw.PROPS[prop].get("instrument", [])), tuple(bw.PROPS[prop].get("instr_flags", ())))
            if want != built:  # each property is tested on the instrumented build its check uses
                sc.build(list(want[0]), want[1])
                built = want
            runs = []
            procs = []
            for gmp in (1, 4, 16):
                for rep in (0, 1, 2):
                    for shard in (0, 1):
                        jp = os.path.join(sc.dir, "det-%s-%d-%d-%d.txt" % (prop, gmp, rep, shard))
                        env = dict(BW_PROP=prop, BW_MODE="det", BW_SEED=str(seed), BW_SHARD=str(shard), BW_MAXCASES=str(ncases), BW_OUT=jp,
                                   BW_TRACE="1", GOMAXPROCS=str(gmp))
                        env.update({k: str(v) for k, v in bw.PROPS[prop].get("env", {}).get("quick", {}).items()})
                        procs.append((sc.child(env, None, jp + ".err"), jp, shard, gmp, rep))
            for p, jp, shard, gmp, rep in procs:
                p.wait()
                lines = [l.rstrip("\n") for l in open(jp)] if os.path.exists(jp) else []
                runs.append((shard, gmp, rep, [l for l in lines if l.startswith("D ")]))
            for shard in (0, 1):
                rs = [r for r in runs if r[0] == shard]
                ref = rs[0][3]
                bad = 0
                for _, gmp, rep, ls in rs[1:]:
                    if ls != ref:
                        bad += 1
                        for a, b in zip(ref, ls):
                            if a != b:
                                print("DIVERGENCE %s shard %d GOMAXPROCS=%d rep=%d:\n  %s\n  %s" % (prop, shard, gmp, rep, a, b))
                                break
                        if len(ls) != len(ref):
                            print("DIVERGENCE %s shard %d GOMAXPROCS=%d rep=%d: %d vs %d lines" % (prop, shard, gmp, rep, len(ref), len(ls)))
                print("%s shard %d: %d cases x %d processes (GOMAXPROCS 1/4/16 x 3): %s" % (prop, shard, len(ref), len(rs), "identical" if not bad else "%d DIVERGED" % bad))
                if bad or not ref:
                    rc = 2
    finally:
        sc.cleanup()
    return rc
