#!/bin/bash
# usage: seedeval.sh <PROP> <N> <demo-dest-dir> <demo-run-regex> [check props...]
# Confirms a sub-agent change ($SEEDROOT/<PROP>/out/change<N>.diff + demo<N>_test.go) in a scratch worktree:
# builds, full suite passes, demo fails with the change and passes without; then runs my checks against it.
set -u
PROP=$1; N=$2; DEST=$3; RUN=$4; shift 4; CHECKS=${*:-$PROP}
ROOT=${SEEDROOT:-/tmp/seed}
OUT=$ROOT/$PROP/out
W=/var/tmp/seedchk-$PROP-$N
export GOFLAGS=-mod=mod GOPROXY=off
git -C /repo worktree prune; rm -rf $W
git -C /repo worktree add -q --detach $W HEAD || exit 2
trap "git -C /repo worktree remove --force $W" EXIT
cd $W
git apply $OUT/change$N.diff || { echo "RESULT patch-does-not-apply"; exit 2; }
go build ./... || { echo "RESULT does-not-build"; exit 2; }
SUITE=$(go test -vet=off -count=1 ./... 2>&1 | grep -v "no test files" | grep -v "^ok" | head -5)
[ -z "$SUITE" ] && echo "suite: passes with the change" || { echo "suite FAILS with the change: $SUITE"; echo "RESULT suite-fails"; exit 2; }
mkdir -p $DEST; cp $OUT/demo${N}_test.go $DEST/zz_demo${N}_test.go
if go test -vet=off -count=1 -run "$RUN" ./$DEST/ >$ROOT/demo-$PROP-$N-with.log 2>&1; then echo "demo PASSES with the change (unexpected)"; DEMO_WITH=pass; else echo "demo: fails with the change"; DEMO_WITH=fail; fi
git checkout -q -- . ; 
if go test -vet=off -count=1 -run "$RUN" ./$DEST/ >$ROOT/demo-$PROP-$N-without.log 2>&1; then echo "demo: passes without the change"; DEMO_WO=pass; else echo "demo FAILS without the change (unexpected)"; DEMO_WO=fail; tail -5 $ROOT/demo-$PROP-$N-without.log; fi
rm -f $DEST/zz_demo${N}_test.go
git apply $OUT/change$N.diff
echo "confirmed: demo_with=$DEMO_WITH demo_without=$DEMO_WO"
cd /verif
for c in $CHECKS; do
  echo "--- check $c against the change"
  BW_REPO=$W BW_BUDGET_S=${SEED_BUDGET_S:-45} ./bwsim check $c --tier quick 2>&1 | grep -v "^KNOWN-FINDING" | cut -c1-300 | head -${SEED_LINES:-8}
  echo "exit=${PIPESTATUS[0]}"
done
