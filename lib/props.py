"""Per-property configuration of the bwsim checks (what is instrumented, budgets,
what ran real code and what ran a stub, evidence rule text)."""

ENGINE_FILES = [
    "storage/memory/memory.go",
    "storage/memoization/memoization.go",
    "bql/planner/planner.go",
    "bql/planner/data_access.go",
    "bql/table/table.go",
    "io/io.go",
]

# files whose map ranges are rewritten to the simulator-owned order, without yields
MAPS_ONLY_FILES = [
    "bql/semantic/semantic.go",
    "bql/semantic/hooks.go",
    "bql/semantic/expression.go",
    "bql/semantic/convert.go",
    "bql/grammar/parser.go",
    "bql/grammar/grammar.go",
]

REAL_STORE = ["storage/memory (real code)", "triple, node, predicate, literal (real code)"]

PROPS = {}

PROPS["C01"] = dict(
    level="exploration",
    instrument=ENGINE_FILES,  # one instrumented build serves every check; with no active run the seams are pass-through
    budget=dict(quick=25, thorough=600),
    rule="seeded histories of 4-90 store operations (NewGraph/Graph/DeleteGraph/GraphNames, AddTriples/RemoveTriples batches with duplicates, overlaps, "
         "empty batches, stale handles of dropped graphs) over 1-3 graphs and a universe of 8-20 triples (plain values; in rich cases also one instant in two zones, int64 extremes and neighbours beyond 2^53, "
         "floats closer than 1e-6, +Inf, empty identifiers and texts, and anchors at boundary instants: Go's zero time, the Unix epoch, the nanosecond before it, the end of year 9999); after EVERY operation the complete observable state "
         "(call outcome, GraphNames, full listing as a multiset of structural keys, Exist of every universe triple, every other graph) is compared with a "
         "reference map name->set. A case is non-trivial when at least one non-empty batch was applied and observed afterwards; distinct = distinct "
         "(operation kind, graph, resulting set size) sequences",
    components_real=REAL_STORE,
    components_stub=["single simulated client (sequential driver); no scheduler: this is the fault-free single-client configuration of the store simulation (C07 is the concurrent one)"],
    assumptions=["triple identity is judged structurally (kind + value of each component, anchors as instants), never through UUID()",
                 "no fault kinds exist for a volatile store; none are injected here"],
)
PROPS["C02"] = dict(PROPS["C01"],
    rule="same seeded histories as C01; after sampled steps every one of the ten indexed lookups and Triples is called with fixed components drawn from "
         "stored and non-stored universe triples and from absent vocabulary values, and compared as a multiset of projected structural keys with a filter "
         "over the reference set (predicate equality = identifier, kind, instant). 15% of the histories run inside a synctest bubble with every consumer of "
         "lookup results pausing 0.3 / 1.5 / 6 simulated seconds before its first receives (how fast a caller drains is not part of the answer). "
         "Non-trivial: at least one non-empty batch applied before a lookup round",
)
PROPS["C09"] = dict(PROPS["C01"],
    rule="same seeded histories as C01; after sampled steps every lookup is called with generated options (window bounds on/next to stored anchors incl. "
         "lower>upper and one-sided, filter function x field, LatestAnchor, page size x offset) and compared with the reference definition "
         "window -> filter -> page; pages are compared with blocks of the implementation's own unpaged sequence and must concatenate to it; the options "
         "value must be unchanged after the call. 15% of the histories run inside a synctest bubble with slow consumers (0.3 / 1.5 / 6 simulated seconds "
         "before the first receives). Non-trivial: at least one non-empty batch applied before a lookup round",
)

PROPS["C07"] = dict(
    instr_flags=["-lockset", "storage/memory/memory.go,storage/memoization/memoization.go"],
    simulated=True,
    level="exploration",
    instrument=ENGINE_FILES,
    budget=dict(quick=40, thorough=900),
    rule="2-4 simulated clients x 1-4 operations (AddTriples/RemoveTriples batches, Exist, all lookups incl. shared LookupOptions values with LatestAnchor / "
         "filter / window, GraphNames, NewGraph/Graph/DeleteGraph with handles outliving a drop) on 1-2 graphs of one store over a universe of 3-7 triples; "
         "every statement boundary of the instrumented storage/memory copy is a switch point, preemption budget 0-5, RWMutex writer preference on/off, result "
         "channel capacity 0/1/8, all drawn from the seed. Oracles: porcupine linearizability of the recorded history (events stamped with the scheduler's "
         "global event sequence; AddTriples batch atomic, RemoveTriples expanded to single-triple removals sharing the call interval), no panic, no deadlock "
         "(no runnable task while a client is unfinished), step cap, channel closed exactly once also on error, shared options unmodified between every two "
         "scheduler steps, no goroutine left, lock discipline (no access to a mutex-guarded field of the store without its lock while another task accesses it too, one of them writing); 8% of the lookups are called with a context that is already done (refusing is fine, not closing the channel is not); after all clients returned a quiescent "
         "audit compares every lookup for every universe triple and Exist with the full listing of each graph, and the final listing joins the history. Non-trivial: at least one scheduling decision with >= 2 runnable tasks, >= 2 clients on one graph, >= 1 write; "
         "distinct = distinct (recorded history, pick sequence) pairs",
    components_real=["storage/memory (real code, instrumented scratch copy: sim.Yield before every statement, sim.RWMutex)", "triple, node, predicate, literal (real code)"],
    components_stub=["clients and channel drainers (harness tasks)", "scheduler: seeded cooperative baton scheduler inside a testing/synctest bubble (x/sim)"],
    assumptions=["switch points are statement boundaries: what two racing statements do to memory is below the simulator's granularity; the race clause of C07 is covered by (a) unsynchronised multi-statement updates becoming visible to the linearizability / invariant / audit oracles and (b) the lock-discipline check: every access to a mutex-guarded field of storage/memory (map fields and fields declared after the mutex) is checked against the locks the accessing task holds; local map-typed aliases of guarded data are followed, buckets passed on as parameters only up to the call",
                 "sim.RWMutex admits any hand-over order (a superset of sync.RWMutex); Go's writer preference is modelled as a per-run flag",
                 "porcupine timeouts (10 s) are counted as inconclusive, never reported"],
)

PROPS["C19"] = dict(
    instr_flags=["-lockset", "storage/memory/memory.go,storage/memoization/memoization.go"],
    simulated=True,
    level="exploration",
    instrument=ENGINE_FILES,
    budget=dict(quick=30, thorough=900),
    rule="(a) sequential: histories of 3-14 reads (every lookup, with window / filter / LatestAnchor / page size+offset options, and Exist) and writes "
         "through 1-3 handles of one graph obtained from memoization.New(memory.NewStore()); every read is repeated on the wrapped store and must deliver "
         "the same sequence. (b) concurrent: one writer (1-3 AddTriples/RemoveTriples batches) and one or two readers (2-4 repeated reads each, through the "
         "writer's handle or their own) under the seeded scheduler with yield points before every statement of the instrumented memoization and memory "
         "copies; a read must answer like the wrapped store in one of the states it may observe (real-time bounds from the event sequence); a third of these runs are hot-spot runs: every reader "
         "repeats one read about a triple the writer adds or removes, through the writer's handle. (c) faulty wrapped driver (30% of the sequential cases): a simulated driver sits between the "
         "memoizer and the memory store and fails the next call of chosen operations (write refused; lookup fails before the first element or after j elements; Exist fails): the wrapper must "
         "report the failure, may have delivered only a prefix of the answer, and every later read must again equal the wrapped store. Caller-side faults in the same configuration: the context "
         "is cancelled inside a wrapped driver call, or by the consumer after it has received j elements (memo hit or miss) - the read may fail with a prefix or complete, it never reports success for a part. "
         "Non-trivial: (a) a read after a write, (b) a read overlapping a write with at least one scheduling decision, (c) a read after a fired fault; distinct = distinct histories x pick sequences",
    components_real=["storage/memoization (real code, instrumented scratch copy)", "storage/memory (real code, instrumented scratch copy)"],
    components_stub=["clients and drainers (harness tasks)", "seeded scheduler in a synctest bubble (x/sim)"],
    assumptions=["a RemoveTriples batch may become visible triple by triple (C07 allows it); its intermediate states count as observable",
                 "context cancellation at arbitrary engine statements inside the memoizer is exercised by C08 / C20 and the cancel knob of the query checks; here it is planted inside a wrapped driver call or after j received elements"],
)

ENGINE_REAL = ["bql/lexer, bql/grammar (parser, LLk), bql/semantic (hooks, statement) - real code",
               "bql/planner, bql/table - real code, instrumented scratch copy (yield before every statement, sim mutexes, goroutine announcements)",
               "tools/vcli/bw/server.BQL entry point - real code", "storage/memory - real code (instrumented)", "storage/memoization - real code (instrumented), in part of the runs"]

PROPS["C20"] = dict(
    simulated=True,
    level="fault_enumeration",
    instrument=ENGINE_FILES,
    budget=dict(quick=45, thorough=900),
    grace_s=120,
    rule="seeded corpus of statements (SELECT with 1-3 clauses of every driver lookup shape incl. OPTIONAL, GROUP BY / ORDER BY / LIMIT / global bounds; INSERT; DELETE; "
         "CREATE; DROP; CONSTRUCT / DECONSTRUCT with and without ';' reification; SHOW) over 1-3 graphs; per statement one fault-free run under tape T records the driver "
         "call trace c1..cn, then ONE RUN PER (call position, mode) under the same tape with that single fault: non-streaming calls fail; streaming calls fail before the "
         "first element and after j delivered elements (j in {1, 2, n/2, n-1, n}), once more with the error reported late (channel closed first, the error two simulated seconds afterwards); the caller's context is cancelled when the call starts and after j elements (j in {1, n}); a SLOW call (the call takes 1-6 simulated seconds before it answers, or streams with a simulated second before each of its first elements: the statement must behave exactly as in the "
         "fault-free run - same success / failure, same rows - and return); plus sampled double faults. "
         "The simulated driver is context-ignoring (like storage/memory) or context-aware (returns ctx.Err() once the context is done: cancellation by the caller or by the engine's own errgroup "
         "then turns into further driver errors), a per-case knob. The prefix of the call trace up to the fault must equal the "
         "fault-free one (checked). Oracle per run: whenever a driver call returned an error to the engine Execute returns a non-nil error; never (nil, nil); it returns (no deadlock, no step cap); no goroutine of the call is left "
         "(bubble stack dump); no panic. evaluations = simulated executions (fault-free + faulty); a case is non-trivial when at least one injected fault actually fired; "
         "distinct = distinct (statement, data, knobs)",
    exhaustive_note="exhaustive only over (call position x mode) of each sampled statement, with j capped to five values per call in the quick tier, every j <= delivered in the thorough tier",
    components_real=ENGINE_REAL,
    components_stub=["simulated storage driver (x/harness/simstore.go): gate + pacing + emission permutation + fault plan over the real memory store", "seeded scheduler in a synctest bubble"],
    assumptions=["the simulated driver honours the storage.Graph contract (closes the channel before returning, also on error)",
                 "nothing is demanded about partial writes after a failed write",
                 "caller-side cancellation is injected at driver-call granularity (start of a call, between two elements), not at arbitrary engine statements"],
)

PROPS["C08"] = dict(
    simulated=True,
    level="exploration",
    instrument=ENGINE_FILES,
    budget=dict(quick=40, thorough=900),
    rule="statement texts from three seeded sources - (a) structured generator of all eight statement kinds (semantically valid, executes deep: patterns with "
         "OPTIONAL, aliases, bounds, GROUP BY / aggregates, ORDER BY, LIMIT incl. negative / fractional / huge / non-int64 limits), (b) random derivations of the "
         "exported grammar.BQL() table with sampled token texts, (c) random byte strings - half of them damaged the way an aborted or mangled request is "
         "(truncation after a token, token deletion / duplication / swap / replacement, delimiter injected inside a token, token cut, early error followed by a "
         "long tail, trailing tokens after the final ';'); executed through server.BQL as the client of a simulated run over empty and populated stores, plain or "
         "memoized, with drawn chanSize / bulkSize / processor count / pacing / emission order / context-aware or context-ignoring driver / collected-and-redelivered or direct (the real driver streams into the engine's own channel) lookups; in 15% of the runs the caller's context is cancelled during a "
         "drawn driver call. Oracle: exactly one of (table, error); no panic in the caller or in "
         "any engine goroutine; the call returns (no deadlock / step cap); no goroutine of the call is left (bubble stack dump, lexer included). "
         "Every execution counts as non-trivial (a table or an intended rejection); distinct = distinct (text, data)",
    components_real=ENGINE_REAL,
    components_stub=["simulated storage driver, fault-free (gate, pacing, emission order)", "seeded scheduler in a synctest bubble"],
    assumptions=["no exhaustiveness over byte strings is claimed: the input dimension is seeded generation, the simulator contributes the goroutine / termination / leak dimension",
                 "log.Fatalf / os.Exit in the engine terminates the shard process; the journal identifies the case and it is re-run alone to confirm"],
)

_QUERY_COMMON = dict(
    # per-statement step cap: exceeding it is "inconclusive, not judged" in these checks (a legitimately huge cross
    # product), so the quick tier keeps it low enough for a case to stay well inside its wall-clock allowance
    env=dict(quick=dict(BW_MAXSTEPS=1500000), thorough=dict(BW_MAXSTEPS=6000000)),
    simulated=True,
    level="exploration",
    instrument=ENGINE_FILES,
    budget=dict(quick=40, thorough=900),
    components_real=ENGINE_REAL,
    components_stub=["simulated storage driver (gate, pacing, permuted emission of unpaged lookups; never failing in these checks - in 10% of the cases one of its calls is slow by simulated seconds, in 10% the caller's context is cancelled during one of its calls)", "seeded scheduler in a synctest bubble",
                     "reference evaluator (x/harness/ref.go) as oracle"],
    assumptions=["the input dimension (graph contents x query) is seeded generation, not enumeration; the simulator owns completion order and pace of driver calls, emission order, fan-out width (GOMAXPROCS knob), channel sizes and map iteration order",
                 "a statement whose caller cancelled may fail: it is then executed again without the cancellation and that run is judged; a cancelled statement that reports success is judged like any other",
                 "queries whose answer the property statement leaves open are executed but not judged (a binding introduced by an OPTIONAL clause used again, bounds taken from bindings, sum over mixed kinds)"],
)
PROPS["C03"] = dict(_QUERY_COMMON,
    rule="graph contents over the vocabulary (immutable and temporal predicates sharing identifiers, all literal kinds, predicate-valued objects, one instant in two zones) partitioned over 1-3 "
         "disjoint graphs; SELECTs of the conjunctive fragment: 1-4 clauses, constants or bindings in every position, repeated bindings within and across clauses and across kinds, "
         "anchor bindings, clause bounds, global BEFORE/AFTER/BETWEEN, AS/ID/TYPE/AT extractions, projection aliases (also ones that re-use the name of a pattern binding), empty identifiers and texts, 1-3 FROM graphs; executed through server.BQL inside the simulator under a drawn "
         "schedule / pacing / emission order / chanSize / processor count / memoization; result compared as a multiset of canonical rows with the reference evaluator (as sets of distinct "
         "rows when a clause has an un-named anchor range). Non-trivial: non-empty reference result; distinct = distinct (query text, data)")
PROPS["C10"] = dict(_QUERY_COMMON,
    rule="as C03 with at least one OPTIONAL clause after the first clause (sharing 0, 1 or more bindings with the preceding pattern, fully specified with and without alias, with "
         "extractions that may not apply, matching nothing, several in sequence); reference = left outer join. Non-trivial: non-empty reference result")
PROPS["C11"] = dict(_QUERY_COMMON,
    rule="as C03 with GROUP BY over 1-2 output names (bindings or aliases) and count / count(distinct) / sum projections over columns holding nodes, predicates, literals of several types, "
         "time anchors and strings, incl. empty patterns and singleton groups; the arrival order of rows at Table.Reduce is owned by the simulator (driver completion order, emission "
         "permutation, map order). int64 sums compared exactly, float64 sums to 9 significant digits. Non-trivial: non-empty reference result")

PROPS["C12"] = dict(_QUERY_COMMON,
    components_stub=["simulated storage driver, fault-free (gate, pacing, permuted emission: the LIMIT push-down into the driver crosses this seam)", "seeded scheduler in a synctest bubble"],
    rule="numeric- and anchor-heavy data (negative / fractional / extreme numbers, neighbouring integers beyond 2^53, floats closer than 1e-6, anchors of several precisions, text, nodes) and base queries of 1-2 clauses, optionally grouped; "
         "for each base query Q the variants Q, Q+ORDER BY keys (1-2 keys, ASC/DESC, repeated keys, aliases, aggregate outputs), Q+ORDER BY+LIMIT n and Q+LIMIT n for n in {0,1,2,3,5,50} "
         "and Q with four invalid limits, each variant under its own drawn schedule / driver behaviour / knobs. Oracle (no mirrored sort): ordered result is a permutation of the "
         "unordered one; adjacent rows are in order under the property's comparator (int64 / float64 numerically, anchors chronologically, else printed form; pairs with keys of "
         "different kinds are not judged); LIMIT n returns min(n,N) rows of the query, sorted, and no omitted row sorts before the last returned one; invalid limits are rejected. "
         "evaluations = executed variants; non-trivial: base result has >= 2 rows; distinct = distinct (base query, keys, data)")
PROPS["C14"] = dict(_QUERY_COMMON,
    components_stub=["simulated storage driver, fault-free", "seeded scheduler in a synctest bubble"],
    rule="for a generated (data, SELECT without LIMIT / FILTER) the multiset of rows - the sequence when ORDER BY lists every output column - must be identical across: 4 re-executions under "
         "other tapes (driver completion order, emission order, pacing, chanSize, bulkSize, processor count, memoization, map iteration seed), a consistent renaming of all bindings, the "
         "data partitioned over 2 and 3 FROM graphs, two random permutations of the clauses (when none is OPTIONAL); and the result over a superset of the data contains the result "
         "(no OPTIONAL / aggregate). A quarter of the queries carry global BEFORE / AFTER / BETWEEN bounds; 12% of the cases use a clause whose time bounds are bindings bound by an earlier clause (every row has its own window) and 10% a clause all of whose bindings are bound by the other clause under a global bound. evaluations = executed variants; non-trivial: non-empty base result; distinct = distinct (query, data)")

PROPS["C04"] = dict(_QUERY_COMMON,
    components_stub=["simulated storage driver, fault-free, around ONE real memory store shared by the statements of a case", "seeded scheduler in a synctest bubble (one bubble per statement)",
                     "reference model: map name -> (set of structural triple keys, multiset of blank-node stars) + the reference evaluator for WHERE patterns"],
    rule="sequences of 3-12 statements over 2-4 graphs: INSERT / DELETE into several graphs (duplicates, absent triples, missing graphs), CREATE / DROP (several names, existing / missing), "
         "CONSTRUCT / DECONSTRUCT with constants, bindings, anchor bindings, ';' reification, several template triples, several INTO / FROM graphs, target = source, missing graphs, "
         "SELECT / SHOW and syntactically broken statements interleaved; each statement is a simulated client over the simulated driver (update() per target graph and the bulk writer of "
         "CONSTRUCT are scheduled by the seed, bulkSize 1-10). After EVERY statement the full listing of EVERY graph is compared with the model: plain triples as a set, blank nodes "
         "structurally (one star of predicate->object pairs per blank node, as a multiset; a blank node shared by two rows or used as an object is a mismatch). Failed statements must leave "
         "non-target graphs (and, when rejected before execution, all graphs) unchanged. Statements whose WHERE answer is left open are executed, checked for collateral changes, and the "
         "model is re-synchronised. Non-trivial: at least one statement changed the store; distinct = distinct (statement kinds and outcomes, data)")

PROPS["C05"] = dict(
    simulated=True,
    level="exploration",
    instrument=ENGINE_FILES,
    budget=dict(quick=30, thorough=900),
    rule="graphs of 0-13 triples (10%: 60-220; 6%: plus text literals padded so that the printed line is exactly 4095 ... 131072 bytes long, on and next to reader block sizes; 1%: plus 4095 ... 8193 small triples) over the documented domain (plain values in half of the cases; in the other half also its corners: ids with quotes, '@[', ']', backslashes, non-ASCII; "
         "anchors in several zones with nanoseconds; int64 extremes; -0, +-Inf, subnormal and huge floats; text containing the literal / predicate delimiters; empty blobs; predicate-valued "
         "objects) pushed through the pipeline graph -> io.WriteGraph (its producer goroutine scheduled by the seed) -> simulated writer -> disk image -> simulated reader (1..k bytes per call, "
         "(n>0,EOF), interspersed (0,nil) reads) -> io.ReadIntoGraph -> empty graph. Oracle: set equality by structural keys, both calls report the number of triples, re-export is byte "
         "identical, WriteGraph returns / leaves no goroutine. Fault configuration (4 cases in 10): the writer or the reader fails at byte k, the graph being exported fails its listing before the first / after j triples, or the graph being loaded refuses its "
         "k-th write - the call must return an error (and after a refused write report exactly what the graph holds). Each value also goes "
         "through a print / re-parse probe (input sampling, labelled as such). Non-trivial: non-empty graph or a fired fault; distinct = distinct (graph, stream behaviour)",
    components_real=["io.WriteGraph / io.ReadIntoGraph (real code, WriteGraph instrumented)", "storage/memory (real code)", "triple, node, predicate, literal parsers and printers (real code)"],
    components_stub=["simulated disk: writer failing at byte k, reader with arbitrary legal chunking / failing at byte k (x/harness/simio.go)", "seeded scheduler in a synctest bubble for WriteGraph"],
    assumptions=["the value-level clause of C05 (every value prints and re-parses) is a pure function of the value: it is exercised as the content of the pipeline and as a labelled input-sampling probe, not claimed for all values",
                 "text literals containing line breaks are outside the line protocol and not generated"],
)
PROPS["C15"] = dict(
    env=dict(thorough=dict(BW_CASE_TIMEOUT_S=240)),  # deep cases enumerate several thousand damaged images each
    level="fault_enumeration",
    # the value packages are instrumented too: three cases in ten call the parsers from several tasks at once
    instrument=ENGINE_FILES + ["triple/triple.go", "triple/node/node.go", "triple/predicate/predicate.go", "triple/literal/literal.go"],
    instr_flags=["-skipinit"],
    budget=dict(quick=30, thorough=900),
    rule="a generated graph of 1-5 triples is exported to the simulated disk; then EVERY truncation point (torn write) and EVERY lost-head offset of the image (images up to 400 bytes, sampled beyond), every single-line duplication, drop and separator loss, 60 "
         "sampled bit flips, 40 transposed and 25 zeroed extents, over-long runs (>= 64 KiB) without separator, 40 injected escape sequences, 25 reader failures at byte k and 80 sampled PAIRS of "
         "damages are applied, one damaged image per execution (thorough tier, images up to 220 bytes: additionally EVERY single-bit flip, EVERY reader-failure offset and every lost-head x lost-separator pair). Each damaged image is read with io.ReadIntoGraph through the adversarial "
         "reader into an empty graph, and every line and every tab separated field of it is handed to triple.Parse, node.Parse, predicate.Parse, the literal builder and triple.ParseObject. "
         "Oracle: no panic; never (nil / empty value, nil error); an accepted value prints to text that is accepted again as an equal value; the reader loads exactly the triples of the lines "
         "before the first line the reference line recogniser (written from the docs) rejects and reports that count - a line the reference rejects but the implementation accepts is judged by "
         "the print / re-parse rule instead. Three cases in ten are concurrent-parse cases instead: the lines and fields of the intact image are parsed by 2-4 tasks at once under the seeded "
         "scheduler (value packages instrumented) and every result must equal what the same call returns on its own. When the reader fails at byte k: the call fails, the reported count is the number of lines loaded, those are exactly the first lines, and every well formed "
         "line delivered completely before the failure is loaded (documented contract of ReadIntoGraph). evaluations = damaged images; non-trivial: non-empty graph; distinct = distinct graphs",
    exhaustive_note="exhaustive over the truncation points and lost-head offsets of each sampled image (<= 400 bytes) and over single-line duplications / drops / separator losses; everything else is sampled",
    components_real=["io.ReadIntoGraph, triple.Parse, triple.ParseObject, node.Parse, predicate.Parse, literal builder Parse (real code)", "storage/memory (real code)"],
    components_stub=["simulated disk image with torn / head-less / flipped / zeroed / transposed / duplicated / dropped / merged content, adversarial and failing reader", "reference line recogniser (regular expressions + strconv/time, x/harness/serial.go)"],
    assumptions=["claimed for malformed text as produced by storage faults on valid exports (and for the reader clause); exhaustive enumeration of all short strings is input enumeration and not done",
                 "besides the fields of the damaged lines, their one- and two-character prefixes and their tails are tried (what a write torn inside a delimiter leaves), incl. the empty string"],
)

PROPS["C18"] = dict(
    level="exploration",
    instrument=ENGINE_FILES,
    budget=dict(quick=25, thorough=600),
    rule="histories of 3-12 statements fed to ONE grammar.Parser over ONE grammar.SemanticBQL() instance: statements of all eight kinds (structured generator and random derivations of the "
         "exported grammar table, with HAVING / ORDER BY / GROUP BY / bounds / LIMIT) interleaved with aborted statements - cut after any token, or with one token deleted / duplicated / "
         "swapped / replaced / damaged (so that semantic hooks hold partially accumulated state: a subject without predicate, a BETWEEN without its second bound, an open alias keyword). "
         "Oracle: for every statement of the history the accept / reject outcome and the canonical rendering of everything the statement means (kind, graph lists, data triples, pattern "
         "clauses with all aliases and bounds, filters, projections, GROUP BY, ORDER BY, HAVING tokens, global bounds, LIMIT, construct templates) equal those of a FRESH parser on the same "
         "text. 6% of the statements are long ones (30-300 triples / graphs / clauses / HAVING terms): a fresh parser must accept them (list length is not part of the grammar; an extra beyond the claimed clause). "
         "Non-trivial: at least one accepted statement after at least one abort; distinct = distinct histories",
    components_real=["bql/grammar parser + LLk, bql/lexer, bql/semantic hooks and Statement (real code)"],
    components_stub=["the statement history (aborted operations on a stateful object) is the injected fault sequence; no scheduler is involved"],
    assumptions=["only the second sentence of C18 (no state between statements) is addressed; the first (accepted language = grammar) is a pure recognition claim",
                 "the fresh-parser outcome is the reference: a statement a fresh parser mis-parses the same way is not detected here"],
)

PROPS["C06"] = dict(
    simulated=True,
    level="exploration",
    instrument=["triple/triple.go", "triple/node/node.go", "triple/predicate/predicate.go", "triple/literal/literal.go"],
    instr_flags=["-pools", "-skipinit"],
    budget=dict(quick=25, thorough=600),
    rule="3-9 values per case (nodes, predicates, objects, triples over the whole vocabulary incl. its near-misses: type/id boundary pair, literals whose value bytes coincide across types, "
         "one instant in two zones, int64 extremes and neighbours beyond 2^53, floats closer than 1e-6, +Inf, empty identifiers, anchors at the zero time / Unix epoch / year 9999). "
         "Reference: each value's UUID in a fresh state (pools emptied, nothing hashed before). Then 2-4 tasks call UUID() on 2-6 of these values each (with repeats) under the seeded "
         "scheduler, with yield points before every statement of triple.go / node.go / predicate.go / literal.go and every sync.Pool of these packages replaced by a pool the simulator owns "
         "(one LIFO free list shared by all tasks: a call inherits the buffer the previous call - of any task - released; reset per run). Oracles: every UUID computed by any task at any "
         "point equals the fresh-state UUID of that value (same on every call, in every goroutine, whatever was hashed before or is being hashed meanwhile); over the values of a case UUID "
         "equality and Triple.Equal coincide with structural equality (kind and components, anchors as instants); no panic. Non-trivial: at least one scheduling decision with >= 2 runnable "
         "tasks and more than two calls; distinct = distinct (values, call lists, pick sequence)",
    components_real=["triple, triple/node, triple/predicate, triple/literal UUID / Equal code (real code, instrumented scratch copy, sync.Pool -> simulator-owned pool)"],
    components_stub=["tasks calling UUID() (harness)", "seeded scheduler in a synctest bubble (x/sim)", "sim.Pool: deterministic shared free list in place of sync.Pool's per-P caches"],
    assumptions=["'in every process' is outside a single-process simulator: nothing in these functions reads process state, which is checked by reading, not by this run",
                 "sim.Pool shares buffers more eagerly than sync.Pool (any released buffer goes to the next Get of any task): a superset of the sharing a real pool can show",
                 "pairs of values are sampled from a fixed vocabulary; injectivity over all values is input enumeration and not claimed"],
)

PROPS["C16"] = dict(
    simulated=True,
    level="exploration",
    instrument=ENGINE_FILES + ["bql/lexer/lexer.go"],
    budget=dict(quick=30, thorough=600),
    rule="input texts from the C08 sources (structured statements of all kinds, random derivations of the grammar table, token-level mutations and truncations, random bytes; 10%: two texts "
         "concatenated) are lexed by lexer.New(text, capacity) with the lexer's producer goroutine instrumented (a yield before every statement of bql/lexer/lexer.go) and a consumer task "
         "draining the channel, both under the seeded scheduler: per input one sequential reference run (capacity 0, no preemption) and three runs with drawn capacity in {0,1,2,3,8,64}, "
         "schedule seed, 0-5 preemptions and consumer pace (never / always / sometimes yielding between two receives). Oracles on every run: the lexer terminates (no step cap, no deadlock), "
         "the channel is closed, the producer goroutine is gone afterwards, no panic; the token texts occur in the input left to right without overlap (earliest-match embedding); exactly one "
         "end-of-input or error token, as the last one. Across runs: the token sequence (types, texts, error messages) is identical to the reference run whatever the capacity and interleaving. "
         "Labelled input-level probe (not simulation): for inputs that lex without error, replacing every white-space gap between two tokens by other white space, and flipping the letter case of "
         "keyword tokens / literal type names, leaves types and texts (up to case) unchanged; 8% of the inputs are the printed form of one vocabulary value (node, predicate, literal without embedded "
         "quotes, binding, blank node, bound), which has to come out as exactly one token carrying that text. Non-trivial: more than one token and at least one scheduling decision with >= 2 runnable tasks; "
         "distinct = distinct inputs",
    components_real=["bql/lexer (real code, instrumented scratch copy: the producer goroutine is scheduled by the seed)"],
    components_stub=["consumer task draining the token channel (harness)", "seeded scheduler in a synctest bubble (x/sim)"],
    assumptions=["what the simulation contributes is the capacity / interleaving dimension and termination, closure, goroutine exit; that each token sequence is the right one for its input is judged only by the "
                 "structural oracles (ordered substrings, terminal token) and the case / white-space probes - the lexer's token classes themselves are taken from the implementation",
                 "the clause 'the printed form of a node, predicate, ... is emitted as one token' is exercised through the structured statements (which print such values) but not judged separately",
                 "a consumer that abandons the channel leaves the producer blocked by design of the API (LLk.Drain exists for that); not an oracle here, the parser-level consequence is C08's"],
)

# ---------------------------------------------------------------------------
# Texts for MANIFEST.json (level claimed, trusted base, technique)
MANIFEST_TEXT = {}
_store_note = ("trusted base: the reference model (a map of sets keyed by structural triple keys, x/harness/store.go, lookup.go), the structural key functions, "
               "the go1.26.8 toolchain; sampled histories, not exhaustive")
MANIFEST_TEXT["C01"] = dict(
    text="seeded exploration of operation histories against an executable reference model, complete observable state compared after every operation; "
         "this is the fault-free single-client configuration of the store simulation (no schedule or fault dimension exists for a sequential client of a volatile store)",
    note=_store_note,
    technique="deterministic simulation (single-client configuration): seeded history search with step-by-step refinement against a reference model; structural shrinking; replay file")
MANIFEST_TEXT["C02"] = dict(
    text="seeded exploration: after sampled steps of generated histories all lookups are compared with a filter over the reference set",
    note=_store_note,
    technique="deterministic simulation (single-client configuration): seeded history search, lookup results refined against a scan of the reference model; slow consumers on the synctest fake clock")
MANIFEST_TEXT["C09"] = dict(
    text="seeded exploration: lookups with generated options compared with the documented definition (window, filter function, page) over the reference set; paging judged against the implementation's own unpaged order",
    note=_store_note,
    technique="deterministic simulation (single-client configuration): seeded history and configuration search against a reference definition of the lookup options; slow consumers on the synctest fake clock")
MANIFEST_TEXT["C07"] = dict(
    text="seeded search over interleavings of concurrent clients at statement granularity with linearizability checking of every recorded history and invariants evaluated between scheduler steps; many short diverse runs, each exactly replayable from its tape",
    note="trusted base: x/sim scheduler + testing/synctest quiescence, the go/ast instrumenter (its pass-through self-test runs the repository's own tests on the instrumented copy), porcupine v1.3.0, the set model; data races inside a single statement are not reachable",
    technique="deterministic simulation: seeded cooperative scheduler over real goroutines (synctest bubble), AST-inserted yield points and sim mutexes in a scratch copy, porcupine linearizability check, schedule+workload shrinking, replay from tape")
MANIFEST_TEXT["C19"] = dict(
    text="seeded exploration of read/write histories through one or several handles (lockstep comparison with the wrapped store), of one-writer/one-or-two-reader interleavings at statement granularity inside the memoizer, and of histories over a wrapped driver with transient failures (recovery: reads after a failed call must again equal the wrapped store)",
    note="trusted base: x/sim scheduler, instrumenter, the lookup reference definition; single writer only (as the property states)",
    technique="deterministic simulation: seeded scheduler over the instrumented memoization+memory copies, lockstep refinement against the wrapped store, real-time-bounded state matching, shrinking, replay from tape")
MANIFEST_TEXT["C20"] = dict(
    text="fault enumeration: for every statement of a seeded corpus, every driver call it makes (by position in the recorded call trace) is failed in every applicable mode - and the caller's context cancelled at that position - under the same tape; the statement must return in bounded steps leaving no goroutine, with an error whenever a driver call returned one",
    note="trusted base: x/sim scheduler, simulated driver, instrumenter; corpus is sampled, (position x mode) is enumerated per statement",
    technique="deterministic simulation with fault injection: seeded scheduler over the instrumented engine, simulated storage driver (context-ignoring or context-aware) with a per-call fault plan incl. caller cancellation, same-tape re-execution per fault position, bubble-end goroutine leak detection")
MANIFEST_TEXT["C08"] = dict(
    text="seeded exploration of statement texts (structured, grammar-derived, mutated, random) executed end to end inside the simulator, with termination, panic and goroutine-leak oracles on every goroutine the engine starts",
    note="trusted base: x/sim scheduler + synctest bubble accounting, instrumenter, simulated driver; inputs are sampled",
    technique="deterministic simulation: server.BQL pipeline as a simulated client over the instrumented engine and a simulated driver; bubble-end goroutine accounting; child-process journal for process-killing failures; shrinking of text and data")
_q_note = "trusted base: the reference evaluator x/harness/ref.go (nested-loop unification, left join, grouping; written from the property statements and docs/bql.md), canonical value keys, x/sim, simulated driver"
MANIFEST_TEXT["C03"] = dict(
    text="seeded exploration of (data, SELECT) pairs executed inside the simulator under drawn schedules and driver behaviours, every result compared with an independent reference evaluator",
    note=_q_note,
    technique="deterministic simulation of the real planner over a simulated driver (seeded completion order, pacing, emission order, fan-out width) + refinement against a reference evaluator; shrinking of data, query and knobs")
MANIFEST_TEXT["C10"] = dict(
    text="as C03, for patterns with OPTIONAL clauses against a reference left outer join",
    note=_q_note,
    technique="deterministic simulation of the real planner over a simulated driver + refinement against a reference left outer join")
MANIFEST_TEXT["C11"] = dict(
    text="as C03, for GROUP BY queries; row arrival order at the reducer (the thing its non-total comparator is sensitive to) is decided by the seed",
    note=_q_note,
    technique="deterministic simulation of the real planner over a simulated driver (seeded row arrival order) + refinement against reference grouping and aggregation")
MANIFEST_TEXT["C12"] = dict(
    text="metamorphic check over executions of Q / Q+ORDER BY / Q+ORDER BY+LIMIT n / Q+LIMIT n, each under its own seeded schedule and driver behaviour, against the property's comparator",
    note="trusted base: the comparator written from the property statement (x/harness/meta.go cmpCells), x/sim, simulated driver; keys of mixed kinds are not judged",
    technique="deterministic simulation of the real planner over a simulated driver + metamorphic oracle (permutation, sortedness, valid prefix) across independently scheduled variants")
MANIFEST_TEXT["C14"] = dict(
    text="purely metamorphic: the same query meaning executed under different schedules, knobs, renamings, clause orders, data partitions and data supersets must give the same (or a containing) result",
    note="trusted base: x/sim, simulated driver, canonical row rendering; no reference model involved",
    technique="deterministic simulation of the real planner over a simulated driver; metamorphic comparison of variants each run under its own seeded schedule, configuration and map-iteration seed")
MANIFEST_TEXT["C04"] = dict(
    text="seeded exploration of statement histories against a reference model of the whole store, compared in full after every statement, with the engine's writer concurrency scheduled by the seed",
    note="trusted base: the store model and template instantiation in x/harness/stmts.go, the reference evaluator, x/sim, simulated driver",
    technique="deterministic simulation: statement histories as simulated clients over a simulated driver around one real store, step-by-step refinement against a reference model incl. structural blank-node comparison")
MANIFEST_TEXT["C05"] = dict(
    text="seeded exploration of the export / import stream pipeline under adversarial but legal reader and writer behaviour and under write / read failures at byte k, plus a labelled value-level probe",
    note="trusted base: structural key functions, simulated disk, x/sim for WriteGraph's goroutine; values are sampled",
    technique="deterministic simulation of the I/O pipeline: simulated disk (chunking, short reads, EOF shapes, failures at byte k), WriteGraph as a simulated client, round-trip oracle on structural keys")
MANIFEST_TEXT["C15"] = dict(
    text="fault enumeration on the simulated disk: every truncation point and lost-head offset, every line duplication / drop / separator loss (and sampled flips, zeroed / transposed extents, junk runs, escape injection, reader failures and pairs of damages) of each exported image is fed to the reader and the parsers",
    note="trusted base: the reference line recogniser written from the documentation, structural keys; images are sampled, truncation points enumerated",
    technique="deterministic fault injection on a simulated disk image (torn write and lost head at every byte, bit flips, zeroed / transposed extents, duplicated / lost / merged lines, failing reader, pairs of damages) + reader / parser oracles (no panic, no nil-nil, re-parse, prefix-loaded)")
MANIFEST_TEXT["C18"] = dict(
    text="seeded exploration of statement histories with aborts at arbitrary tokens on one stateful parser / hook set, each outcome compared with a fresh parser",
    note="trusted base: the canonical statement rendering through semantic.Statement's exported accessors; only the history clause of C18 is claimed",
    technique="deterministic fault injection on a stateful object: aborted operations (statement cut / damaged at any token) interleaved with complete ones, differential oracle against a fresh instance")

MANIFEST_TEXT["C16"] = dict(
    text="seeded exploration of inputs x channel capacities x producer/consumer interleavings with the lexer goroutine instrumented: termination, closure, goroutine exit and structural token oracles on every run, token sequence identical to a sequential reference run",
    note="trusted base: x/sim scheduler + synctest bubble accounting, the instrumenter, the earliest-match embedding; inputs are sampled; the token classes are the implementation's",
    technique="deterministic simulation: the lexer's producer goroutine (instrumented scratch copy) against a consumer task under the seeded scheduler over all channel capacities; metamorphic oracle against a sequential reference run plus structural oracles; bubble-end goroutine accounting")

MANIFEST_TEXT["C06"] = dict(
    text="seeded exploration of concurrent UUID() calls over shared scratch-buffer pools with the value packages instrumented: every UUID computed under any interleaving and call history equals the value's fresh-state UUID; UUID equality and Triple.Equal coincide with structural equality over the sampled values",
    note="trusted base: x/sim scheduler, the instrumenter incl. its sync.Pool -> sim.Pool rewrite, the structural key functions; values are sampled from a fixed vocabulary; other processes are out of reach",
    technique="deterministic simulation: tasks hashing values concurrently under the seeded scheduler, sync.Pool replaced by a simulator-owned shared free list, differential oracle against fresh-state UUIDs plus structural-equality oracle")
