"""Per-property configuration of the bwsim checks (what is instrumented, budgets,
what ran real code and what ran a stub, evidence rule text)."""

ENGINE_FILES = [
    "storage/memory/memory.go",
    "storage/memoization/memoization.go",
    "bql/planner/planner.go",
    "bql/planner/data_access.go",
    "bql/table/table.go",
    "io/io.go",
]

REAL_STORE = ["storage/memory (real code)", "triple, node, predicate, literal (real code)"]

PROPS = {}

PROPS["C01"] = dict(
    level="exploration",
    instrument=[],
    budget=dict(quick=25, thorough=600),
    rule="seeded histories of 4-90 store operations (NewGraph/Graph/DeleteGraph/GraphNames, AddTriples/RemoveTriples batches with duplicates, overlaps, "
         "empty batches, stale handles of dropped graphs) over 1-3 graphs and a universe of 8-20 triples; after EVERY operation the complete observable state "
         "(call outcome, GraphNames, full listing as a multiset of structural keys, Exist of every universe triple, every other graph) is compared with a "
         "reference map name->set. A case is non-trivial when at least one non-empty batch was applied and observed afterwards; distinct = distinct "
         "(operation kind, graph, resulting set size) sequences",
    components_real=REAL_STORE,
    components_stub=["single simulated client (sequential driver); no scheduler: this is the fault-free single-client configuration of the store simulation (C07 is the concurrent one)"],
    assumptions=["triple identity is judged structurally (kind + value of each component, anchors as instants), never through UUID()",
                 "no fault kinds exist for a volatile store; none are injected here"],
)
PROPS["C02"] = dict(PROPS["C01"],
    rule="same seeded histories as C01; after sampled steps every one of the ten indexed lookups and Triples is called with fixed components drawn from "
         "stored and non-stored universe triples and from absent vocabulary values, and compared as a multiset of projected structural keys with a filter "
         "over the reference set (predicate equality = identifier, kind, instant). Non-trivial: at least one non-empty batch applied before a lookup round",
)
PROPS["C09"] = dict(PROPS["C01"],
    rule="same seeded histories as C01; after sampled steps every lookup is called with generated options (window bounds on/next to stored anchors incl. "
         "lower>upper and one-sided, filter function x field, LatestAnchor, page size x offset) and compared with the reference definition "
         "window -> filter -> page; pages are compared with blocks of the implementation's own unpaged sequence and must concatenate to it; the options "
         "value must be unchanged after the call. Non-trivial: at least one non-empty batch applied before a lookup round",
)

# ---------------------------------------------------------------------------
# Texts for MANIFEST.json (level claimed, trusted base, technique)
MANIFEST_TEXT = {}
_store_note = ("trusted base: the reference model (a map of sets keyed by structural triple keys, x/harness/store.go, lookup.go), the structural key functions, "
               "the go1.26.8 toolchain; sampled histories, not exhaustive")
MANIFEST_TEXT["C01"] = dict(
    text="seeded exploration of operation histories against an executable reference model, complete observable state compared after every operation; "
         "this is the fault-free single-client configuration of the store simulation (no schedule or fault dimension exists for a sequential client of a volatile store)",
    note=_store_note,
    technique="deterministic simulation (single-client configuration): seeded history search with step-by-step refinement against a reference model; structural shrinking; replay file")
MANIFEST_TEXT["C02"] = dict(
    text="seeded exploration: after sampled steps of generated histories all lookups are compared with a filter over the reference set",
    note=_store_note,
    technique="deterministic simulation (single-client configuration): seeded history search, lookup results refined against a scan of the reference model")
MANIFEST_TEXT["C09"] = dict(
    text="seeded exploration: lookups with generated options compared with the documented definition (window, filter function, page) over the reference set; paging judged against the implementation's own unpaged order",
    note=_store_note,
    technique="deterministic simulation (single-client configuration): seeded history and configuration search against a reference definition of the lookup options")
