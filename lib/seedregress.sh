#!/bin/bash
# usage: seedregress.sh <outdir> <seed-id>...   Re-runs the owning check (quick tier) against each archived sub-agent change
# (/verif/seeded/<id>/patch.diff applied to a scratch worktree of /repo HEAD; 3-way fallback when a later fix touched the same
# lines) and records whether it is still detected. Development tool; never touches /repo's working tree.
set -u
OUT=$1; shift; mkdir -p $OUT
export GOFLAGS=-mod=mod GOPROXY=off
for id in "$@"; do
  D=/verif/seeded/$id; PROP=$(jq -r "(.detected_by[0] // .property)" $D/meta.json)   # the check that reports it (the owning property unless recorded otherwise)
  W=/var/tmp/seedreg-$id; rm -rf $W; git -C /repo worktree prune
  git -C /repo worktree add -q --detach $W HEAD || { echo "$id worktree-failed" > $OUT/$id.res; continue; }
  ( cd $W && ( git apply $D/patch.diff 2>/dev/null || git apply --3way $D/patch.diff 2>/dev/null ) && go build ./... ) > $OUT/$id.build 2>&1
  if [ $? -ne 0 ] || ( cd $W && git diff --name-only --diff-filter=U | grep -q . ); then
    echo "$id patch-does-not-apply-on-HEAD" > $OUT/$id.res
  else
    ( cd /verif && BW_REPO=$W BW_BUDGET_S=${SEED_BUDGET_S:-45} ./bwsim check $PROP --tier quick ) > $OUT/$id.log 2>&1
    rc=$?
    cls=$(grep -m1 "^  class:" $OUT/$id.log | cut -c1-160)
    echo "$id exit=$rc $cls" > $OUT/$id.res
  fi
  git -C /repo worktree remove --force $W
done
