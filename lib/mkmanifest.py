#!/usr/bin/env python3
"""Regenerates /verif/MANIFEST.json from lib/props.py (claimed checks) and the
not-applicable table below, so that the two never drift apart."""
import json, os, sys
sys.path.insert(0, os.path.dirname(os.path.abspath(__file__)))
from props import PROPS, MANIFEST_TEXT

VERIF = os.path.dirname(os.path.dirname(os.path.abspath(__file__)))

NA = {
    "C13": "HAVING is evaluated row by row after all engine concurrency has ended: a pure function of (row, expression) with no schedule, clock, fault or history in it (DESIGN.md section 7)",
    "C17": "a finite static grammar table; deciding it is enumeration / static analysis, not simulation (DESIGN.md section 7)",
}
PENDING = "check not built yet in this revision of /verif (planned, see DESIGN.md section 6); not claimed until its check exists and is quiet on the unchanged tree"

ids = [json.loads(l)["id"] for l in open(os.path.join(VERIF, "properties.jsonl"))]
checks, na = [], []
for pid in ids:
    if pid in PROPS:
        c = PROPS[pid]
        t = MANIFEST_TEXT[pid]
        checks.append(dict(
            property_id=pid,
            quick_cmd="./bwsim check %s --tier quick" % pid,
            thorough_cmd="./bwsim check %s --tier thorough" % pid,
            evidence_file="/verif/evidence/%s.json" % pid,
            replay_cmd_template="./bwsim replay {path}",
            engine="bwsim",
            level_claimed=dict(category=c["level"], text=t["text"], design_ref="DESIGN.md section 6, " + pid),
            level_note=t["note"],
            technique=t["technique"],
        ))
    else:
        na.append(dict(property_id=pid, reason=NA.get(pid, PENDING)))

m = dict(
    version=1,
    setup_cmd="./bwsim setup",
    hooks=dict(
        guard="verif",
        enable="no hooks in /repo: every check copies /repo's working tree to a scratch directory and inserts the scheduler seams (sim.Yield before every statement, sim mutexes, goroutine announcements) into that copy with a go/ast rewriter (x/instr); the build tag 'verif' is nominal and unused",
        baseline_off_cmd="cd /repo && GOFLAGS=-mod=mod GOPROXY=off go test -vet=off -count=1 ./...",
        source_commits=[],
        add_only=True,
    ),
    engines=[dict(name="bwsim", path="/verif/bwsim", serves_properties=[c["property_id"] for c in checks],
                  kind_free_text="deterministic simulation: seeded cooperative scheduler over real goroutines inside testing/synctest bubbles (x/sim), go/ast instrumenter (x/instr), simulated storage driver with fault plans, simulated disk, reference models and oracles (x/harness), python orchestrator (shards, crash journal, shrinking, known findings, evidence)")],
    checks=checks,
    notes="Exit codes of every command: 0 held (KNOWN-FINDING lines allowed), 1 VIOLATION, 2 infrastructure trouble (never a verdict). Known findings: /verif/known_findings.json. Fixes made to /repo are listed there under 'fixed'.",
    not_applicable=na,
)
json.dump(m, open(os.path.join(VERIF, "MANIFEST.json"), "w"), indent=1)
print("MANIFEST.json: %d checks, %d not applicable" % (len(checks), len(na)))
