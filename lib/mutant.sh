#!/bin/bash
# usage: mutant.sh <patch.diff> <PROP> [tier]   - applies the patch to a scratch worktree of /repo,
# checks that it builds and (optionally, MUT_BASELINE=1) passes the repo suite, runs the check against it.
set -u
P=$(readlink -f "$1"); PROP=$2; TIER=${3:-quick}
W=/var/tmp/bwmut-$$
git -C /repo worktree add -q --detach $W HEAD || exit 2
cleanup() { git -C /repo worktree remove --force $W; }
trap cleanup EXIT
( cd $W && git apply "$P" ) || { echo "patch does not apply"; exit 2; }
if [ "${MUT_BASELINE:-0}" = 1 ]; then
  ( cd $W && GOFLAGS=-mod=mod GOPROXY=off go test -vet=off -count=1 ./... 2>&1 | grep -v "no test files" | grep -v "^ok" ) && echo "(baseline output above)"
fi
cd /verif && BW_REPO=$W ./bwsim check $PROP --tier $TIER 2>&1 | cut -c1-400 | head -${MUT_LINES:-12}
echo "exit=${PIPESTATUS[0]}"
