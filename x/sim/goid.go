package sim

import (
	"runtime"
	"strconv"
	"unsafe"
)

// getg returns the address of the running goroutine's g structure (assembly).
func getg() uintptr

// slowID parses the goroutine id out of runtime.Stack. ~2µs; used for
// calibration and as a fallback.
func slowID() uint64 {
	var buf [64]byte
	n := runtime.Stack(buf[:], false)
	s := buf[len("goroutine "):n]
	i := 0
	for i < len(s) && s[i] >= '0' && s[i] <= '9' {
		i++
	}
	v, _ := strconv.ParseUint(string(s[:i]), 10, 64)
	return v
}

var goidOff uintptr

// calibrate finds the offset of goid inside runtime.g by comparing against
// slowID on several fresh goroutines. It is self-checking: no offset, or more
// than one candidate, leaves goidOff at 0 and gid() falls back to slowID.
func calibrate() {
	const n = 6
	cands := map[uintptr]int{}
	ch := make(chan map[uintptr]bool)
	for k := 0; k < n; k++ {
		go func() {
			id := slowID()
			g := getg()
			m := map[uintptr]bool{}
			for off := uintptr(0); off < 512; off += 8 {
				if *(*uint64)(unsafe.Pointer(g + off)) == id {
					m[off] = true
				}
			}
			ch <- m
		}()
	}
	for k := 0; k < n; k++ {
		for o := range <-ch {
			cands[o]++
		}
	}
	var found []uintptr
	for o, c := range cands {
		if c == n {
			found = append(found, o)
		}
	}
	if len(found) == 1 {
		goidOff = found[0]
	}
}

func init() { calibrate() }

// gid returns the id of the calling goroutine.
func gid() uint64 {
	if goidOff != 0 {
		return *(*uint64)(unsafe.Pointer(getg() + goidOff))
	}
	return slowID()
}

// FastGID reports whether the calibrated fast path is in use.
func FastGID() bool { return goidOff != 0 }
