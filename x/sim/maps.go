package sim

import (
	"fmt"
	"sort"
	"sync/atomic"
)

// Map iteration order owned by the simulator. Instrumented code iterates
// Pairs(m) instead of m: keys are sorted and then permuted with mapSeed
// (0 = sorted order).

var mapSeed atomic.Uint64
var mapCalls atomic.Uint64

// SetMapSeed sets the seed that decides every map iteration order until the
// next call. 0 means plain sorted order.
func SetMapSeed(s uint64) { mapSeed.Store(s); mapCalls.Store(0) }

// Pair is one map entry to visit.
type Pair[K comparable, V any] struct {
	key K
	m   map[K]V
}

// Get returns the key, the entry's current value and whether it still exists.
func (p Pair[K, V]) Get() (K, V, bool) {
	v, ok := p.m[p.key]
	return p.key, v, ok
}

func keyLess(a, b any) bool {
	switch x := a.(type) {
	case string:
		return x < b.(string)
	case int:
		return x < b.(int)
	case int64:
		return x < b.(int64)
	case uint64:
		return x < b.(uint64)
	case bool:
		return !x && b.(bool)
	}
	return fmt.Sprint(a) < fmt.Sprint(b)
}

// Pairs returns the entries of m in the simulator's order.
func Pairs[M ~map[K]V, K comparable, V any](m M) []Pair[K, V] {
	ps := make([]Pair[K, V], 0, len(m))
	for k := range m {
		ps = append(ps, Pair[K, V]{k, m})
	}
	if len(ps) < 2 {
		return ps
	}
	sort.Slice(ps, func(i, j int) bool { return keyLess(ps[i].key, ps[j].key) })
	if s := mapSeed.Load(); s != 0 {
		// Fisher-Yates with a splitmix stream keyed by the seed and a counter
		// that only the (single) running task advances.
		st := s + 0x9E3779B97F4A7C15*mapCalls.Add(1)
		next := func() uint64 {
			st += 0x9E3779B97F4A7C15
			z := st
			z = (z ^ (z >> 30)) * 0xBF58476D1CE4E5B9
			z = (z ^ (z >> 27)) * 0x94D049BB133111EB
			return z ^ (z >> 31)
		}
		for i := len(ps) - 1; i > 0; i-- {
			j := int(next() % uint64(i+1))
			ps[i], ps[j] = ps[j], ps[i]
		}
	}
	return ps
}

// Procs is what instrumented code gets for runtime.GOMAXPROCS(0): the knob set
// by SetProcs, or the real value when no knob is set.
var procsKnob atomic.Int64

func SetProcs(n int) { procsKnob.Store(int64(n)) }

func Procs(real int) int {
	if k := procsKnob.Load(); k > 0 {
		return int(k)
	}
	return real
}
