// Package sim is a seeded cooperative scheduler over real goroutines.
//
// Exactly one registered goroutine ("task") is released at a time; the choice
// of which one is drawn from a choice tape. Every run executes inside a
// testing/synctest bubble: the scheduler loop (the bubble root) calls
// synctest.Wait() to learn that the released task has parked at a yield point,
// blocked on an un-instrumented primitive (channel, WaitGroup, ...) or exited.
//
// Instrumented code calls Yield(site) before every statement, BeforeGo(site)
// before every go statement / errgroup Go call and GoExit() (deferred) inside
// every goroutine body, and uses Mutex/RWMutex instead of the sync types.
// With no active runtime all of these are pass-through.
package sim

import (
	"time"
	"fmt"
	"regexp"
	"runtime"
	"sort"
	"strings"
	"sync"
	"sync/atomic"
	"testing/synctest"
)

// ---------------------------------------------------------------------------
// Choice tape

// Tape is the single source of every scheduling / pacing / fault decision of a
// run. In generate mode values come from a splitmix64 stream and are recorded;
// in replay mode they come from Src and an exhausted tape yields 0 (the
// "simplest" choice: keep running the current task, never preempt).
type Tape struct {
	Src    []uint32 // replay source (nil => generate)
	Rec    []uint32 // what was consumed
	state  uint64
	replay bool
	pos    int
}

// NewTape returns a generating tape.
func NewTape(seed uint64) *Tape { return &Tape{state: seed*0x9E3779B97F4A7C15 + 0x1234567} }

// ReplayTape returns a tape that replays src.
func ReplayTape(src []uint32) *Tape { return &Tape{Src: src, replay: true} }

func (t *Tape) next64() uint64 {
	t.state += 0x9E3779B97F4A7C15
	z := t.state
	z = (z ^ (z >> 30)) * 0xBF58476D1CE4E5B9
	z = (z ^ (z >> 27)) * 0x94D049BB133111EB
	return z ^ (z >> 31)
}

// Draw returns a value in [0,n). n must be > 0.
func (t *Tape) Draw(n uint32) uint32 {
	var v uint32
	if t.replay {
		if t.pos < len(t.Src) {
			v = t.Src[t.pos] % n
		}
		t.pos++
	} else {
		v = uint32(t.next64()>>33) % n
	}
	t.Rec = append(t.Rec, v)
	return v
}

// ---------------------------------------------------------------------------
// Tasks and runtime

const (
	stRunning  = iota // released by the scheduler (running, blocked outside sim, or dead)
	stRunnable        // parked at a yield/point, can be picked
	stWaiting         // parked on a sim lock
	stDone            // exited (GoExit / client wrapper)
)

// Task is one registered goroutine.
type Task struct {
	ID     int
	Name   string
	Client bool
	gid    uint64
	wake   chan struct{}
	state  int
	site   int32
	waitL  *lockState
	waitW  bool // waiting for write access
	rt     *Runtime
	Panic  string
	held   map[*lockState]int // locks this task holds: 1 read, 2 write
}

// Config of one run.
type Config struct {
	MaxSteps    int64 // cap on yield steps (0 = 200000)
	Preempt     int   // preemption budget (number of forced preemptions at yields)
	PreemptMean int   // mean gap, in yield steps, between preemptions
	WriterPref  bool  // model Go's RWMutex writer preference
	Trace       bool  // record an event log
	// Invariant, if set, is evaluated by the scheduler between steps (every
	// other goroutine is parked or blocked then); a non-empty result is
	// recorded as the run's first invariant violation.
	Invariant func() string
	// TimeHorizon: simulated time. The code under test has no timers today, but a timer (a timeout around a channel
	// send, a sleep) inside a synctest bubble reads the bubble's fake clock, which only advances while every goroutine
	// of the bubble is durably blocked - the scheduler loop never is. With a horizon > 0 the loop, when no task is
	// runnable while some task is unfinished, sleeps (fake time) in growing quanta up to the horizon before it
	// concludes "deadlock": pending timers fire, tasks blocked in a timed wait come back.
	TimeHorizon time.Duration
}

// Result of one run.
type Result struct {
	Steps       int64    // yield steps executed (simulated time)
	Decisions   int      // scheduling decisions with >= 2 runnable tasks
	Switches    int      // decisions that changed the running task
	Preempts    int      // preemptions that fired
	SchedHash   uint64   // hash of the pick sequence at decisions with >= 2 runnable
	Deadlock    bool     // no runnable task while a client had not finished
	StepCap     bool     // MaxSteps reached
	Hazard      string   // identity hazard / internal trouble (=> exit 2, never a verdict)
	Stuck       []string // description of unfinished tasks at the end
	Panics      []string // panics recovered in engine goroutines
	Leaked      int      // goroutines of this bubble alive after the run (beyond the root)
	LeakDump    string
	Log         []string
	MaxRunnable int
	Invariant   string // first invariant violation, with the step at which it was seen
	Events      int64  // Stamp() calls
	TimeJumps   int           // times the loop had to let simulated time pass because nothing was runnable
	SimTime     time.Duration // simulated time that passed that way
	LockWaits   int    // times a task had to wait for a sim lock held by another task
	PreSites    []int32 // yield sites at which a preemption fired (the running task was switched out mid-operation)
	Races       []string // lock discipline: a guarded field was accessed without its lock while another task also accesses it (one of them writing)
	Touches     int64    // guarded-field accesses checked
}

// Runtime is the state of one simulated run.
type Runtime struct {
	mu      sync.Mutex
	byGID   map[uint64]*Task
	tasks   []*Task
	cur     *Task
	curGID  uint64
	tape    *Tape
	cfg     Config
	steps   int64
	nextPre int64 // step at which the current task is preempted (0 = none)
	preLeft int
	resv    []*Task // reserved identities for goroutines about to start
	force   bool    // the baton holder must park at its next yield (it just started a goroutine)
	epoch   int
	lateEp  int
	res     Result
	nextID  int
	base    int // goroutines alive in the bubble before the run
	touched map[*lockState][]touchRec
}

// touchRec: one kind of access to the fields a lock guards (deduplicated per task / mode / locked).
type touchRec struct {
	task   int
	name   string
	write  bool
	locked bool
	site   int32
}

var active atomic.Pointer[Runtime]

// Progress returns a value that changes whenever the simulation makes progress: the number of runs started in
// this process and the step count of the active run. Read without synchronisation (monitoring only).
func Progress() (runs int64, steps int64) {
	runs = runsStarted.Load()
	if r := active.Load(); r != nil {
		steps = r.steps
	}
	return
}

var runsStarted atomic.Int64

// Active reports whether a simulated run is in progress.
func Active() bool { return active.Load() != nil }

// New creates a runtime. It must be called inside a synctest bubble, by the
// bubble's root goroutine, which later calls Loop.
func New(tape *Tape, cfg Config) *Runtime {
	if cfg.MaxSteps == 0 {
		cfg.MaxSteps = 200000
	}
	if cfg.PreemptMean <= 0 {
		cfg.PreemptMean = 50
	}
	if cfg.TimeHorizon == 0 {
		cfg.TimeHorizon = 30 * time.Second // simulated; < 0 switches simulated time off
	}
	r := &Runtime{byGID: map[uint64]*Task{}, tape: tape, cfg: cfg, preLeft: cfg.Preempt}
	r.base = runtime.NumGoroutine()
	return r
}

// ActiveTape returns the tape of the run in progress, or nil.
func ActiveTape() *Tape {
	if r := active.Load(); r != nil {
		return r.tape
	}
	return nil
}

// Tape returns the run's choice tape (for pacing / permutation decisions taken
// by simulated components while they hold the baton).
func (r *Runtime) Tape() *Tape { return r.tape }

func (r *Runtime) logf(format string, a ...any) {
	if r.cfg.Trace {
		r.res.Log = append(r.res.Log, fmt.Sprintf(format, a...))
	}
}

// Logf appends to the run's event log (only from the baton holder or the root).
func Logf(format string, a ...any) {
	if r := active.Load(); r != nil {
		r.logf(format, a...)
	}
}

func (r *Runtime) newTask(name string, client bool) *Task {
	t := &Task{ID: r.nextID, Name: name, Client: client, wake: make(chan struct{}, 1), rt: r}
	r.nextID++
	r.tasks = append(r.tasks, t)
	return t
}

// Client starts fn as a client task. Only the root goroutine (before Loop) or
// the baton holder may call it.
func (r *Runtime) Client(name string, fn func()) *Task {
	r.mu.Lock()
	t := r.newTask(name, true)
	t.state = stRunning
	r.mu.Unlock()
	go func() {
		t.gid = gid()
		r.mu.Lock()
		r.byGID[t.gid] = t
		r.mu.Unlock()
		defer func() {
			if p := recover(); p != nil {
				t.Panic = fmt.Sprint(p) + "\n" + trimStack()
			}
			r.mu.Lock()
			t.state = stDone
			r.mu.Unlock()
		}()
		r.park(t, stRunnable)
		fn()
	}()
	return t
}

func trimStack() string {
	buf := make([]byte, 4096)
	n := runtime.Stack(buf, false)
	return string(buf[:n])
}

// park blocks the calling task until the scheduler releases it.
func (r *Runtime) park(t *Task, st int) {
	r.mu.Lock()
	t.state = st
	r.mu.Unlock()
	<-t.wake
}

// lookup returns the task of the calling goroutine, registering it if it is a
// goroutine that has just been started by instrumented code.
func (r *Runtime) lookup(g uint64) *Task {
	r.mu.Lock()
	t := r.byGID[g]
	if t == nil {
		if len(r.resv) > 0 {
			t = r.resv[0]
			r.resv = r.resv[1:]
		} else {
			// A goroutine nobody announced: give it an identity, but two of
			// them in one scheduling window cannot be ordered deterministically.
			if r.lateEp == r.epoch {
				r.res.Hazard = "two unannounced goroutines registered in one scheduling window"
			}
			r.lateEp = r.epoch
			t = r.newTask("late", false)
		}
		t.gid = g
		t.state = stRunning
		r.byGID[g] = t
	}
	r.mu.Unlock()
	return t
}

// Yield is called before every statement of instrumented code.
func Yield(site int32) {
	r := active.Load()
	if r == nil {
		return
	}
	g := gid()
	if g == r.curGID {
		r.steps++
		if (r.nextPre != 0 && r.steps >= r.nextPre) || r.force || r.steps >= r.cfg.MaxSteps {
			t := r.cur
			t.site = site
			r.force = false
			if r.nextPre != 0 && r.steps >= r.nextPre {
				r.res.Preempts++
				r.res.PreSites = append(r.res.PreSites, site)
				r.preLeft--
				r.nextPre = 0
			}
			r.park(t, stRunnable)
		}
		return
	}
	t := r.lookup(g)
	if t.rt != r {
		select {} // zombie of an earlier run
	}
	t.site = site
	r.park(t, stRunnable)
}

// Point is an unconditional scheduling point (used by simulated components).
func Point(site int32) {
	r := active.Load()
	if r == nil {
		return
	}
	g := gid()
	var t *Task
	if g == r.curGID {
		r.steps++
		t = r.cur
	} else {
		t = r.lookup(g)
	}
	t.site = site
	r.park(t, stRunnable)
}

// BeforeGo announces that the caller is about to start a goroutine whose body
// is instrumented. It reserves the child's identity; the next Yield of the
// caller parks so that the child registers before anything else happens.
func BeforeGo(site int32) {
	Yield(site)
	r := active.Load()
	if r == nil {
		return
	}
	r.mu.Lock()
	t := r.newTask(fmt.Sprintf("go@%d", site), false)
	t.state = stRunning
	r.resv = append(r.resv, t)
	r.mu.Unlock()
	r.force = true
}

// GoExit is deferred at the top of every instrumented goroutine body. It marks
// the task finished and converts a panic into an observation (the process
// would otherwise die); the rest of the engine then typically hangs, which is
// reported as a consequence of the panic.
func GoExit() {
	r := active.Load()
	if r == nil {
		return
	}
	p := recover()
	g := gid()
	r.mu.Lock()
	t := r.byGID[g]
	if t != nil && t.rt == r {
		t.state = stDone
	}
	if p != nil {
		r.res.Panics = append(r.res.Panics, fmt.Sprint(p)+"\n"+trimStack())
	}
	r.mu.Unlock()
}

// PreemptSoon asks for one extra preemption of the caller within the next
// maxGap yield steps (drawn from the tape). Harnesses call it right before an
// operation that creates in-flight state, so that faults land inside
// operations rather than between them. Only the baton holder may call it.
func PreemptSoon(maxGap int) {
	r := active.Load()
	if r == nil || maxGap <= 0 {
		return
	}
	if gid() != r.curGID {
		return
	}
	gap := int64(r.tape.Draw(uint32(maxGap))) + 1
	if r.nextPre == 0 || r.steps+gap < r.nextPre {
		r.nextPre = r.steps + gap
		r.preLeft++ // does not consume the run's budget
	}
}

// Stamp returns the next value of the run's global event sequence. Only the
// baton holder may call it, so the order of stamps is the real-time order.
func Stamp() int64 {
	r := active.Load()
	if r == nil {
		return 0
	}
	r.res.Events++
	return r.res.Events
}

// Go starts fn as a non-client helper task (harness drainers etc.).
func Go(name string, fn func()) {
	r := active.Load()
	if r == nil {
		go fn()
		return
	}
	Yield(-4) // make sure the caller holds the baton
	r.mu.Lock()
	t := r.newTask(name, false)
	t.state = stRunning
	r.resv = append(r.resv, t)
	r.mu.Unlock()
	r.force = true
	go func() {
		defer GoExit()
		Yield(-1)
		fn()
	}()
	Yield(-2)
}

// ---------------------------------------------------------------------------
// Scheduler loop

func (r *Runtime) runnable() []*Task {
	var rs []*Task
	for _, t := range r.tasks {
		switch t.state {
		case stRunnable:
			rs = append(rs, t)
		case stWaiting:
			if t.waitL.available(t.waitW, r.cfg.WriterPref) {
				rs = append(rs, t)
			}
		}
	}
	return rs
}

// unfinished reports whether some task has neither exited nor is parked by the scheduler (it is blocked outside:
// on a channel, a WaitGroup - or a timer).
func (r *Runtime) unfinished() bool {
	r.mu.Lock()
	defer r.mu.Unlock()
	for _, t := range r.tasks {
		if t.state == stRunning {
			return true
		}
	}
	return false
}

// Loop runs the scheduler until no task is runnable. It must be called by the
// bubble root.
func (r *Runtime) Loop() *Result {
	// The seams are pass-through until the loop starts: the root may run
	// instrumented code (set-up) before it.
	active.Store(r)
	runsStarted.Add(1)
	defer active.Store(nil)
	h := uint64(1469598103934665603)
	var idle time.Duration
	idleJumps := 0
	for {
		synctest.Wait()
		r.epoch++
		if len(r.resv) > 0 {
			// The announced goroutine never reached a yield point (it blocked
			// or finished inside un-instrumented code): forget the reservation.
			r.resv = r.resv[:0]
		}
		if r.res.Hazard != "" {
			break
		}
		if r.cfg.Invariant != nil && r.res.Invariant == "" {
			if v := r.cfg.Invariant(); v != "" {
				cur := "-"
				if r.cur != nil {
					cur = fmt.Sprintf("t%d(%s) site %d", r.cur.ID, r.cur.Name, r.cur.site)
				}
				r.res.Invariant = fmt.Sprintf("step %d after %s: %s", r.steps, cur, v)
			}
		}
		rs := r.runnable()
		if len(rs) == 0 {
			// (the horizon bounds one continuous stretch in which nothing is runnable, not the run)
			if r.cfg.TimeHorizon > 0 && idle < r.cfg.TimeHorizon && r.unfinished() {
				q := time.Millisecond << uint(idleJumps)
				if q > time.Second || q <= 0 {
					q = time.Second
				}
				time.Sleep(q) // fake clock of the bubble: jumps to the next timer once everything is blocked
				idleJumps++
				idle += q
				r.res.TimeJumps++
				r.res.SimTime += q
				continue
			}
			break
		}
		idle, idleJumps = 0, 0
		if r.steps >= r.cfg.MaxSteps {
			r.res.StepCap = true
			break
		}
		if len(rs) > r.res.MaxRunnable {
			r.res.MaxRunnable = len(rs)
		}
		// current task first, then by id: choice 0 = "keep going".
		sort.Slice(rs, func(i, j int) bool {
			if (rs[i] == r.cur) != (rs[j] == r.cur) {
				return rs[i] == r.cur
			}
			return rs[i].ID < rs[j].ID
		})
		k := 0
		if len(rs) > 1 {
			k = int(r.tape.Draw(uint32(len(rs))))
			r.res.Decisions++
			h = (h ^ uint64(rs[k].ID+1)) * 1099511628211
			h = (h ^ uint64(len(rs))) * 1099511628211
		}
		t := rs[k]
		if t != r.cur {
			r.res.Switches++
		}
		if r.cfg.Trace {
			r.logf("pick t%d(%s) site=%d of %d", t.ID, t.Name, t.site, len(rs))
		}
		r.cur, r.curGID = t, t.gid
		t.state = stRunning
		t.waitL = nil
		r.nextPre = 0
		if r.preLeft > 0 {
			gap := r.tape.Draw(uint32(2*r.cfg.PreemptMean) + 1)
			if gap > 0 {
				r.nextPre = r.steps + int64(gap) // the budget is spent only if it fires
			}
		}
		t.wake <- struct{}{}
	}
	r.res.SchedHash = h
	r.res.Steps = r.steps
	r.res.Races = r.races()
	for _, t := range r.tasks {
		if t.Panic != "" {
			r.res.Panics = append(r.res.Panics, "client "+t.Name+": "+t.Panic)
		}
		if t.state == stDone {
			continue
		}
		if t.Client && !r.res.StepCap {
			r.res.Deadlock = true
		}
		d := fmt.Sprintf("t%d(%s) ", t.ID, t.Name)
		switch t.state {
		case stRunning:
			d += fmt.Sprintf("blocked outside the scheduler after site %d", t.site)
		case stRunnable:
			d += fmt.Sprintf("runnable at site %d", t.site)
		case stWaiting:
			d += fmt.Sprintf("waiting for lock %s (write=%v) at site %d", t.waitL.describe(), t.waitW, t.site)
		}
		r.res.Stuck = append(r.res.Stuck, d)
	}
	if n := runtime.NumGoroutine() - r.base; n > 0 {
		buf := make([]byte, 1<<17)
		m := runtime.Stack(buf, true)
		r.res.Leaked, r.res.LeakDump = filterBubble(string(buf[:m]))
	}
	return &r.res
}

var bubbleRe = regexp.MustCompile(`synctest bubble (\d+)`)

// filterBubble keeps the goroutines of a stack dump that belong to the
// caller's synctest bubble, are not the caller or the bubble plumbing and are
// not parked by the scheduler: those are goroutines the system under test
// left behind.
func filterBubble(dump string) (int, string) {
	gs := strings.Split(dump, "\n\n")
	m := bubbleRe.FindStringSubmatch(strings.SplitN(gs[0], "\n", 2)[0])
	if m == nil {
		return 0, ""
	}
	tag := "synctest bubble " + m[1] + "]"
	var out []string
	for _, g := range gs[1:] {
		head := strings.SplitN(g, "\n", 2)[0]
		if !strings.Contains(head, tag) {
			continue
		}
		if strings.Contains(g, "sim.(*Runtime).park") || strings.Contains(g, "synctest.testingSynctestTest") || strings.Contains(head, "synctest.Run") {
			continue
		}
		lines := strings.Split(g, "\n")
		if len(lines) > 11 {
			lines = lines[:11]
		}
		out = append(out, strings.Join(lines, "\n"))
	}
	return len(out), strings.Join(out, "\n\n")
}

// ---------------------------------------------------------------------------
// Locks

type lockState struct {
	writer   bool
	readers  int
	wWaiting int
	name     string
}

func (l *lockState) available(write, pref bool) bool {
	if write {
		return !l.writer && l.readers == 0
	}
	if pref && l.wWaiting > 0 {
		return false
	}
	return !l.writer
}

func (l *lockState) describe() string {
	return fmt.Sprintf("%p[writer=%v readers=%d wwait=%d]", l, l.writer, l.readers, l.wWaiting)
}

// self returns the calling task and the runtime, or nil when inactive.
func self() (*Runtime, *Task) {
	r := active.Load()
	if r == nil {
		return nil, nil
	}
	g := gid()
	if g == r.curGID {
		return r, r.cur
	}
	return r, r.lookup(g)
}

func (r *Runtime) acquire(t *Task, l *lockState, write bool) {
	if write {
		r.mu.Lock()
		l.wWaiting++
		r.mu.Unlock()
	}
	for {
		r.mu.Lock()
		ok := l.available(write, r.cfg.WriterPref && !write)
		if ok && t == r.cur {
			if write {
				l.writer = true
				l.wWaiting--
			} else {
				l.readers++
			}
			if t.held == nil {
				t.held = map[*lockState]int{}
			}
			if write {
				t.held[l] = 2
			} else {
				t.held[l] = 1
			}
			r.mu.Unlock()
			return
		}
		t.waitL, t.waitW = l, write
		r.mu.Unlock()
		if ok {
			// not the baton holder: get scheduled first
			r.park(t, stRunnable)
		} else {
			r.mu.Lock()
			r.res.LockWaits++
			r.mu.Unlock()
			r.park(t, stWaiting)
		}
	}
}

func (r *Runtime) release(l *lockState, write bool) {
	g := gid()
	r.mu.Lock()
	if write {
		l.writer = false
	} else {
		l.readers--
	}
	if t := r.byGID[g]; t != nil && t.held != nil {
		delete(t.held, l)
	}
	r.mu.Unlock()
}

// touch records an access to data guarded by l (see instr -lockset) and whether the calling task holds l in the
// mode the access needs.
func (r *Runtime) touch(l *lockState, write bool, site int32) {
	g := gid()
	r.mu.Lock()
	defer r.mu.Unlock()
	t := r.byGID[g]
	if t == nil {
		return
	}
	r.res.Touches++
	h := t.held[l]
	ok := h == 2 || (!write && h == 1)
	if r.touched == nil {
		r.touched = map[*lockState][]touchRec{}
	}
	for _, x := range r.touched[l] {
		if x.task == t.ID && x.write == write && x.locked == ok {
			return
		}
	}
	r.touched[l] = append(r.touched[l], touchRec{t.ID, t.Name, write, ok, site})
}

// races evaluates the lock discipline at the end of a run: an access made without the lock is a race when some
// other task accesses data of the same lock too and at least one of the two writes (the tasks of these runs are
// ordered by nothing but these locks).
func (r *Runtime) races() []string {
	var out []string
	for _, recs := range r.touched {
		for _, a := range recs {
			if a.locked {
				continue
			}
			for _, b := range recs {
				if b.task != a.task && (a.write || b.write) {
					out = append(out, fmt.Sprintf("task %s accesses lock-guarded data at site %d (write=%v) without holding the lock while task %s accesses it too (write=%v, holding the lock=%v, site %d)", a.name, a.site, a.write, b.name, b.write, b.locked, b.site))
					break
				}
			}
		}
	}
	sort.Strings(out)
	return out
}

// Touch: see instr -lockset.
func (m *RWMutex) Touch(write bool, site int32) {
	if r := active.Load(); r != nil {
		r.touch(&m.st, write, site)
	}
}

// Touch: see instr -lockset.
func (m *Mutex) Touch(write bool, site int32) {
	if r := active.Load(); r != nil {
		r.touch(&m.st, write, site)
	}
}

// Mutex replaces sync.Mutex in instrumented code.
type Mutex struct {
	real sync.Mutex
	st   lockState
}

func (m *Mutex) Lock() {
	r, t := self()
	if r == nil {
		m.real.Lock()
		return
	}
	r.acquire(t, &m.st, true)
}

func (m *Mutex) Unlock() {
	r := active.Load()
	if r == nil {
		m.real.Unlock()
		return
	}
	r.release(&m.st, true)
}

// RWMutex replaces sync.RWMutex in instrumented code.
type RWMutex struct {
	real sync.RWMutex
	st   lockState
}

func (m *RWMutex) Lock() {
	r, t := self()
	if r == nil {
		m.real.Lock()
		return
	}
	r.acquire(t, &m.st, true)
}

func (m *RWMutex) Unlock() {
	r := active.Load()
	if r == nil {
		m.real.Unlock()
		return
	}
	r.release(&m.st, true)
}

func (m *RWMutex) RLock() {
	r, t := self()
	if r == nil {
		m.real.RLock()
		return
	}
	r.acquire(t, &m.st, false)
}

func (m *RWMutex) RUnlock() {
	r := active.Load()
	if r == nil {
		m.real.RUnlock()
		return
	}
	r.release(&m.st, false)
}

// ---------------------------------------------------------------------------
// Pool replaces sync.Pool in instrumented code (instr -pools). sync.Pool keeps per-P caches the runtime empties at
// its own discretion: which buffer a Get returns is not reproducible. Pool is one LIFO free list per pool, shared
// by all tasks (the most sharing a real pool can exhibit), guarded by a real mutex that is never held across a
// yield, and emptied by ResetPools.
type Pool struct {
	New  func() any
	mu   sync.Mutex
	free []any
	gen  int64
}

var poolGen atomic.Int64

// ResetPools makes every Pool forget what it holds: the next Get of each pool calls New.
func ResetPools() { poolGen.Add(1) }

func (p *Pool) Get() any {
	p.mu.Lock()
	if g := poolGen.Load(); p.gen != g {
		p.gen, p.free = g, nil
	}
	if n := len(p.free); n > 0 {
		x := p.free[n-1]
		p.free = p.free[:n-1]
		p.mu.Unlock()
		return x
	}
	p.mu.Unlock()
	if p.New != nil {
		return p.New()
	}
	return nil
}

func (p *Pool) Put(x any) {
	p.mu.Lock()
	if g := poolGen.Load(); p.gen != g {
		p.gen, p.free = g, nil
	}
	p.free = append(p.free, x)
	p.mu.Unlock()
}
