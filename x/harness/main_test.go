package harness

import "testing"

// TestShard is the single entry point of the harness binary; see RunShard.
func TestShard(t *testing.T) { RunShard(t) }
