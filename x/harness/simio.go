package harness

import (
	"errors"
	"io"
)

// Simulated disk: a byte image written through a writer that can fail at a
// chosen byte, read back through a reader that delivers arbitrary legal
// chunkings ((n>0, EOF), (0, nil), 1..k bytes per call) or fails at a chosen
// byte, and damaged in between the way storage faults damage a file (torn
// write = prefix, flipped byte, duplicated or dropped line).

var errDisk = errors.New("simio: injected I/O failure")

type simWriter struct {
	buf    []byte
	failAt int // fail when the write would cross this byte offset (<0: never)
	calls  int
	fired  bool
}

func (w *simWriter) Write(p []byte) (int, error) {
	w.calls++
	if w.failAt >= 0 && len(w.buf)+len(p) > w.failAt {
		n := w.failAt - len(w.buf)
		if n < 0 {
			n = 0
		}
		w.buf = append(w.buf, p[:n]...)
		w.fired = true
		return n, errDisk
	}
	w.buf = append(w.buf, p...)
	return len(p), nil
}

type simReader struct {
	data    []byte
	pos     int
	r       *Rand
	maxStep int  // bytes per call are drawn from 1..maxStep
	eofWith bool // deliver the last bytes together with io.EOF
	zeros   int  // how many (0, nil) reads may be interspersed
	failAt  int  // fail at this offset (<0: never)
	fired   bool
	calls   int
}

func (s *simReader) Read(p []byte) (int, error) {
	s.calls++
	if len(p) == 0 {
		return 0, nil
	}
	if s.failAt >= 0 && s.pos >= s.failAt {
		s.fired = true
		return 0, errDisk
	}
	if s.pos >= len(s.data) {
		return 0, io.EOF
	}
	if s.zeros > 0 && s.r.Chance(0.1) {
		s.zeros--
		return 0, nil
	}
	n := 1 + s.r.Intn(s.maxStep)
	if n > len(p) {
		n = len(p)
	}
	if s.pos+n > len(s.data) {
		n = len(s.data) - s.pos
	}
	if s.failAt >= 0 && s.pos+n > s.failAt {
		n = s.failAt - s.pos
	}
	copy(p, s.data[s.pos:s.pos+n])
	s.pos += n
	if s.pos >= len(s.data) && s.eofWith {
		return n, io.EOF
	}
	return n, nil
}

// image faults ------------------------------------------------------------------

func splitLines(img []byte) [][]byte {
	var ls [][]byte
	start := 0
	for i, b := range img {
		if b == '\n' {
			ls = append(ls, img[start:i+1])
			start = i + 1
		}
	}
	if start < len(img) {
		ls = append(ls, img[start:])
	}
	return ls
}

func joinLinesB(ls [][]byte) []byte {
	var out []byte
	for _, l := range ls {
		out = append(out, l...)
	}
	return out
}
