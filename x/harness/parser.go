package harness

import (
	"sort"
	"github.com/google/badwolf/bql/table"
	"github.com/google/badwolf/triple/literal"
	"encoding/json"
	"fmt"
	"strings"
	"testing"

	"github.com/google/badwolf/bql/grammar"
	"github.com/google/badwolf/bql/lexer"
	"github.com/google/badwolf/bql/semantic"
)

// C18 (history clause): the meaning extracted from an accepted statement is
// determined by its text alone - statements parsed earlier with the same
// parser, accepted or rejected (aborted at any token), do not change it.
// One Parser over ONE SemanticBQL() grammar instance is fed a generated
// sequence of statements and aborted statements; every outcome is compared with
// the outcome of a fresh parser on the same text.

func init() { register("C18", func() Harness { return &parserHarness{} }) }

type ParserCase struct {
	Texts   []string `json:"texts"`
	Origins []string `json:"origins,omitempty"`
}

type parserHarness struct{}

func (h *parserHarness) Decode(b []byte) (any, error) {
	c := &ParserCase{}
	return c, json.Unmarshal(b, c)
}

func (h *parserHarness) Gen(r *Rand, tier string, clean bool) any {
	u := genUniverseZ(r, 8, false, false, false)
	names := []string{"?g0", "?g1"}
	c := &ParserCase{}
	n := r.Range(3, 12)
	o := sopts{qopts: qopts{clean: false, maxClauses: 3, optional: 0.3, aliases: 0.4, bounds: 0.6, crossKind: 0.1}, group: 0.3, order: 0.3, limit: 0.3, global: 0.3, missing: 0.05}
	for i := 0; i < n; i++ {
		var toks []string
		origin := ""
		if r.Chance(0.06) {
			// a long statement: list productions repeated far beyond what ordinary statements use
			text, kind := longStatement(r)
			c.Texts = append(c.Texts, text)
			c.Origins = append(c.Origins, "long:"+kind)
			continue
		}
		if r.Chance(0.7) {
			st := genStmt(r, u, names, o, []int{40, 12, 12, 4, 4, 14, 10, 4})
			if st.Kind == "select" && r.Chance(0.3) {
				st.Q.Having = []string{`?b1 = ?b1`, `not (?b1 = ?b2)`, `(?b1 < "3"^^type:int64) and (?b2 > "1"^^type:int64)`, `?b1 > 2010-06-01T00:00:00Z`,
					`?b1 = "alice"^^type:text`, `?b1 = "Alice"^^type:text`, `(?b2 = "a"^^type:text) or (?b1 < "B"^^type:text)`, `(?b2 = "A"^^type:text) or (?b1 < "b"^^type:text)`}[r.Intn(8)]
			}
			toks, origin = tokSplit.Split(st.Text(), -1), "structured:"+st.Kind
		} else {
			var types []lexer.TokenType
			derive(r, "START", 0, &toks, &types)
			origin = "grammar"
		}
		if r.Chance(0.45) {
			// abort: cut after a token, or damage one token
			if r.Chance(0.6) && len(toks) > 1 {
				toks, origin = toks[:1+r.Intn(len(toks)-1)], origin+"|cut"
			} else {
				var how string
				toks, how = mutate(r, toks)
				origin += "|" + how
			}
		}
		c.Texts = append(c.Texts, strings.Join(toks, " "))
		c.Origins = append(c.Origins, origin)
		if origin == "structured:select" && r.Chance(0.15) {
			// a near-duplicate follows: the same statement with the letter case of one quoted text flipped (anything a
			// parser keeps per text - a memo, an interned token - must tell them apart)
			if v := flipQuotedCase(r, toks); v != nil {
				c.Texts = append(c.Texts, strings.Join(v, " "))
				c.Origins = append(c.Origins, "structured:select|near-duplicate")
			}
		}
	}
	return c
}

// longStatement renders a statement whose list (triples, graphs, clauses,
// HAVING terms) has many items; every such statement is derivable and meaningful.
func longStatement(r *Rand) (string, string) {
	var items []string
	switch r.Intn(5) {
	case 0, 1:
		n := r.Range(30, 300)
		for i := 0; i < n; i++ {
			items = append(items, fmt.Sprintf(`/u<s%d> "p"@[] /u<o%d>`, i, i))
		}
		verb := []string{"insert data into", "delete data from"}[r.Intn(2)]
		return verb + " ?g0 { " + strings.Join(items, " . ") + " };", "data"
	case 2:
		n := r.Range(30, 150)
		for i := 0; i < n; i++ {
			items = append(items, fmt.Sprintf("?g%d", i))
		}
		return []string{"create", "drop"}[r.Intn(2)] + " graph " + strings.Join(items, ", ") + ";", "graphs"
	case 3:
		n := r.Range(15, 80)
		for i := 0; i < n; i++ {
			items = append(items, fmt.Sprintf(`?s%d "p"@[] ?o%d`, i, i))
		}
		return "select ?s0 from ?g0 where { " + strings.Join(items, " . ") + " };", "clauses"
	default:
		n := r.Range(8, 60)
		for i := 0; i < n; i++ {
			items = append(items, "(?s = ?o)")
		}
		return `select ?s, ?o from ?g0 where { ?s "p"@[] ?o } having ` + strings.Join(items, " and ") + ";", "having"
	}
}

func (h *parserHarness) Shrink(ci any) []any {
	c := ci.(*ParserCase)
	origins := c.Origins
	if len(origins) != len(c.Texts) {
		origins = make([]string, len(c.Texts))
	}
	var out []any
	for i := range c.Texts {
		d := &ParserCase{Texts: append(append([]string{}, c.Texts[:i]...), c.Texts[i+1:]...),
			Origins: append(append([]string{}, origins[:i]...), origins[i+1:]...)}
		out = append(out, d)
	}
	// shorten an aborted statement further (never a long statement: cut short it is no statement)
	for i, tx := range c.Texts {
		toks := tokSplit.Split(tx, -1)
		if len(toks) > 2 && !strings.HasPrefix(origins[i], "long:") {
			d := &ParserCase{Texts: append([]string{}, c.Texts...), Origins: append([]string{}, origins...)}
			d.Texts[i] = strings.Join(toks[:len(toks)-1], " ")
			out = append(out, d)
		}
	}
	return out
}

// flipQuotedCase returns the tokens with the letters inside one text literal changed in case (nil: none found).
func flipQuotedCase(r *Rand, toks []string) []string {
	var idx []int
	for i, t := range toks {
		if strings.HasSuffix(t, `"^^type:text`) && strings.HasPrefix(t, `"`) && strings.ToUpper(t[:len(t)-11]) != strings.ToLower(t[:len(t)-11]) {
			idx = append(idx, i)
		}
	}
	if len(idx) == 0 {
		return nil
	}
	out := append([]string{}, toks...)
	i := idx[r.Intn(len(idx))]
	body := out[i][:len(out[i])-11]
	if body == strings.ToUpper(body) {
		body = strings.ToLower(body)
	} else {
		body = strings.ToUpper(body)
	}
	out[i] = body + out[i][len(out[i])-11:]
	return out
}

// havingProbeRows: rows on which a statement's HAVING evaluator is run, so that what the evaluator DOES is part of what
// the statement means (its token list alone does not show an evaluator taken from another statement).
func havingProbeRows(st *semantic.Statement) []table.Row {
	names := map[string]bool{}
	for _, ce := range st.HavingExpression() {
		if !ce.IsSymbol() && ce.Token().Type == lexer.ItemBinding {
			names[ce.Token().Text] = true
		}
	}
	var bs []string
	for n := range names {
		bs = append(bs, n)
	}
	sort.Strings(bs)
	lit := func(t literal.Type, v any) *table.Cell {
		l, err := literal.DefaultBuilder().Build(t, v)
		if err != nil {
			panic(err)
		}
		return &table.Cell{L: l}
	}
	t1, t2 := T1, T2
	pool := []*table.Cell{lit(literal.Int64, int64(1)), lit(literal.Int64, int64(3)), lit(literal.Int64, int64(-5)), lit(literal.Float64, 2.5),
		lit(literal.Text, "alice"), lit(literal.Text, "Alice"), lit(literal.Text, "a"), lit(literal.Text, "A"), lit(literal.Text, "b"), lit(literal.Text, "B"),
		{T: &t1}, {T: &t2}, {N: V.Nodes[0]}, {S: table.CellString("x")}}
	var rows []table.Row
	for k := 0; k < len(pool)+4; k++ {
		row := table.Row{}
		for j, b := range bs {
			row[b] = pool[(k+j*5)%len(pool)]
			if k >= len(pool) {
				row[b] = pool[(k*3)%len(pool)] // every binding the same value
			}
		}
		rows = append(rows, row)
	}
	return rows
}

// renderStatement renders everything a statement means, pointer free.
func renderStatement(st *semantic.Statement) string {
	var b strings.Builder
	fmt.Fprintf(&b, "kind=%s\ngraphs=%q\nin=%q\nout=%q\n", st.Type(), st.GraphNames(), st.InputGraphNames(), st.OutputGraphNames())
	for _, t := range st.Data() {
		fmt.Fprintf(&b, "data %s\n", t)
	}
	for _, c := range st.GraphPatternClauses() {
		fmt.Fprintf(&b, "clause %s | pid=%q ptemp=%v oid=%q otemp=%v plo=%q pup=%q olo=%q oup=%q pab=%q paa=%q oab=%q oaa=%q\n", c.String(), c.PID, c.PTemporal, c.OID, c.OTemporal,
			c.PLowerBoundAlias, c.PUpperBoundAlias, c.OLowerBoundAlias, c.OUpperBoundAlias, c.PAnchorBinding, c.PAnchorAlias, c.OAnchorBinding, c.OAnchorAlias)
	}
	for _, f := range st.FilterClauses() {
		fmt.Fprintf(&b, "filter %s\n", f)
	}
	for _, p := range st.Projections() {
		fmt.Fprintf(&b, "proj %+v\n", *p)
	}
	fmt.Fprintf(&b, "group=%q\norder=%s\n", st.GroupByBindings(), st.OrderByConfig())
	for _, ce := range st.HavingExpression() {
		if ce.IsSymbol() {
			fmt.Fprintf(&b, "having sym %s\n", ce.Symbol())
		} else {
			fmt.Fprintf(&b, "having tok %s %q\n", ce.Token().Type, ce.Token().Text)
		}
	}
	if ev := st.HavingEvaluator(); st.HasHavingClause() && ev != nil {
		for k, row := range havingProbeRows(st) {
			func() {
				defer func() {
					if p := recover(); p != nil {
						fmt.Fprintf(&b, "having eval %d panics\n", k)
					}
				}()
				ok, err := ev.Evaluate(row)
				fmt.Fprintf(&b, "having eval %d = %v err=%v\n", k, ok, err != nil)
			}()
		}
	}
	fmt.Fprintf(&b, "lookup=%s\nlimit=%v/%d\n", st.GlobalLookupOptions().String(), st.IsLimitSet(), st.Limit())
	for _, cc := range st.ConstructClauses() {
		fmt.Fprintf(&b, "construct %s\n", cc)
	}
	// blank nodes of construct templates are random; canonicalise
	return volatileRe.ReplaceAllString(b.String(), "X")
}

func parseWith(p *grammar.Parser, text string) (string, error) {
	st := &semantic.Statement{}
	if err := p.Parse(grammar.NewLLk(text, 1), st); err != nil {
		return "", err
	}
	return renderStatement(st), nil
}

func (h *parserHarness) Run(t *testing.T, ci any) *Outcome {
	c := ci.(*ParserCase)
	o := okOutcome()
	shared, err := grammar.NewParser(grammar.SemanticBQL())
	if err != nil {
		return infra("NewParser: %v", err)
	}
	accepted, rejectedBefore := 0, 0
	var sig []string
	for i, text := range c.Texts {
		progressTick()
		fresh, err := grammar.NewParser(grammar.SemanticBQL())
		if err != nil {
			return infra("NewParser: %v", err)
		}
		wantR, wantErr := parseWith(fresh, text)
		gotR, gotErr := parseWith(shared, text)
		mk := func(cls, f string, a ...any) *Outcome {
			v := violation("C18:"+cls, f, a...)
			var hist []string
			for j := 0; j <= i; j++ {
				hist = append(hist, fmt.Sprintf("%d: %s", j, c.Texts[j]))
			}
			v.Detail += "\nstatements fed to the shared parser:\n" + strings.Join(hist, "\n")
			return v
		}
		kind := strings.ToLower(strings.SplitN(strings.TrimSpace(text), " ", 2)[0])
		if i < len(c.Origins) && strings.HasPrefix(c.Origins[i], "long:") && wantErr != nil {
			// beyond the history clause: list length is not part of the grammar
			return mk("long-statement-rejected:"+strings.TrimPrefix(c.Origins[i], "long:"), "a fresh parser rejects a statement that only differs from an ordinary one in the length of its list: %v", wantErr)
		}
		switch {
		case wantErr == nil && gotErr != nil:
			return mk("valid-statement-rejected-after-history:"+kind, "a fresh parser accepts statement %d, the parser with history rejects it: %v", i, gotErr)
		case wantErr != nil && gotErr == nil:
			return mk("invalid-statement-accepted-after-history:"+kind, "a fresh parser rejects statement %d (%v), the parser with history accepts it", i, wantErr)
		case wantErr == nil && gotR != wantR:
			return mk("meaning-differs-after-history:"+kind, "statement %d means something else after the earlier statements:\n--- fresh parser\n%s--- parser with history\n%s", i, wantR, gotR)
		}
		if wantErr == nil {
			accepted++
			if rejectedBefore > 0 {
				o.stat("accepted_after_abort", 1)
			}
		} else {
			rejectedBefore++
		}
		sig = append(sig, fmt.Sprintf("%s:%v", kind, wantErr == nil))
	}
	o.stat("accepted", int64(accepted))
	o.stat("rejected", int64(rejectedBefore))
	o.stat("fault_aborted_statement", int64(rejectedBefore))
	o.NonTrivial = accepted > 0 && rejectedBefore > 0
	o.Hash = hashStr(strings.Join(c.Texts, "\n"))
	o.Sample = map[string]any{"texts": c.Texts, "origins": c.Origins}
	return o
}
