package harness

import (
	"fmt"
	"testing"
	"testing/synctest"

	"github.com/google/badwolf/xverif/sim"
)

// inBubble runs f as the root of a fresh synctest bubble and returns the
// end-of-bubble panic text, if any (goroutines left blocked when f returned).
func inBubble(t *testing.T, f func()) (msg string) {
	defer func() {
		if p := recover(); p != nil {
			msg = fmt.Sprint(p)
		}
	}()
	synctest.Test(t, func(*testing.T) { f() })
	return ""
}

// simRun executes one simulated run: setup registers the clients on the
// runtime; the scheduler loop then runs to quiescence.
func simRun(t *testing.T, tape *sim.Tape, cfg sim.Config, setup func(r *sim.Runtime)) (res *sim.Result, bubbleMsg string) {
	bubbleMsg = inBubble(t, func() {
		r := sim.New(tape, cfg)
		setup(r)
		res = r.Loop()
	})
	return
}
