package harness

import (
	"fmt"
	"time"
	"sort"
	"testing"
	"testing/synctest"

	"github.com/google/badwolf/xverif/sim"
)

// inBubble runs f as the root of a fresh synctest bubble and returns the
// end-of-bubble panic text, if any (goroutines left blocked when f returned).
func inBubble(t *testing.T, f func()) (msg string) {
	defer func() {
		if p := recover(); p != nil {
			msg = fmt.Sprint(p)
		}
	}()
	synctest.Test(t, func(*testing.T) { f() })
	return ""
}

// simRun executes one simulated run: setup registers the clients on the
// runtime; the scheduler loop then runs to quiescence.
func simRun(t *testing.T, tape *sim.Tape, cfg sim.Config, setup func(r *sim.Runtime)) (res *sim.Result, bubbleMsg string) {
	bubbleMsg = inBubble(t, func() {
		r := sim.New(tape, cfg)
		setup(r)
		res = r.Loop()
	})
	if res != nil {
		simAgg.add(res)
	}
	return
}

// simAgg accumulates, per shard process, what the simulated runs reached: distinct pick sequences (the measure of
// distinct interleavings), contention and concurrency reach. RunShard merges it into the shard summary.
type simAggT struct {
	scheds   map[uint64]struct{}
	stats    map[string]int64
	preSites map[int32]struct{}
}

var simAgg = &simAggT{scheds: map[uint64]struct{}{}, stats: map[string]int64{}, preSites: map[int32]struct{}{}}

func (a *simAggT) add(res *sim.Result) {
	a.stats["sim_runs"]++
	if res.Decisions > 0 {
		a.stats["sim_runs_with_a_scheduling_choice"]++
		if len(a.scheds) < 2000000 {
			a.scheds[res.SchedHash^uint64(res.Decisions)<<40] = struct{}{}
		}
	}
	for _, st := range res.PreSites {
		a.preSites[st] = struct{}{}
	}
	if res.TimeJumps > 0 {
		a.stats["probe_runs_in_which_simulated_time_had_to_pass"]++
		a.stats["simulated_clock_ms"] += int64(res.SimTime / time.Millisecond)
	}
	a.stats["sim_decisions"] += int64(res.Decisions)
	a.stats["sim_switches"] += int64(res.Switches)
	a.stats["sim_preemptions_fired"] += int64(res.Preempts)
	if res.LockWaits > 0 {
		a.stats["probe_lock_contention_runs"]++
	}
	switch {
	case res.MaxRunnable >= 4:
		a.stats["probe_runs_with_4_or_more_runnable_tasks"]++
	case res.MaxRunnable >= 2:
		a.stats["probe_runs_with_2_or_3_runnable_tasks"]++
	}
}

func (a *simAggT) sites() []int32 {
	var out []int32
	for st := range a.preSites {
		out = append(out, st)
	}
	sort.Slice(out, func(i, j int) bool { return out[i] < out[j] })
	return out
}

func (a *simAggT) mergeInto(stats map[string]int64) {
	for k, v := range a.stats {
		stats[k] += v
	}
	if len(a.scheds) > 0 {
		stats["distinct_schedules"] += int64(len(a.scheds))
	}
}
