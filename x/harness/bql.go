package harness

import (
	"fmt"
	"strings"
	"time"
)

// Structured BQL statements: generated from the seed, rendered to text for the
// engine, interpreted by the reference evaluator (ref.go). Values are
// vocabulary indices so that cases stay small, printable JSON.

// Tm is a term in subject, predicate or object position.
type Tm struct {
	K   string `json:"k"`             // n node | o object constant (node, literal or predicate) | p predicate constant | b binding | pa "id"@[?anchor] | pb "id"@[lo,hi]
	I   int    `json:"i,omitempty"`   // vocabulary index: Nodes (n), Objs (o), Preds (p)
	B   string `json:"b,omitempty"`   // binding (b) or anchor binding (pa)
	ID  string `json:"id,omitempty"`  // predicate identifier (pa, pb)
	Lo  *int64 `json:"lo,omitempty"`  // pb bounds, unix nanos
	Hi  *int64 `json:"hi,omitempty"`
	LoB string `json:"lob,omitempty"` // pb bounds given by bindings: "id"@[?lo,?hi]
	HiB string `json:"hib,omitempty"`
	As  string `json:"as,omitempty"`
	Ty  string `json:"ty,omitempty"`  // TYPE alias
	IDb string `json:"idb,omitempty"` // ID alias
	At  string `json:"at,omitempty"`  // AT alias
}

type QClause struct {
	Opt bool `json:"opt,omitempty"`
	S   Tm   `json:"s"`
	P   Tm   `json:"p"`
	O   Tm   `json:"o"`
}

type Proj struct {
	B   string `json:"b"`
	As  string `json:"as,omitempty"`
	Agg string `json:"agg,omitempty"` // count | countd | sum
}

type Order struct {
	B    string `json:"b"`
	Desc bool   `json:"desc,omitempty"`
	Asc  bool   `json:"asc,omitempty"` // ASC written explicitly
}

type Query struct {
	Proj    []Proj    `json:"proj"`
	From    []string  `json:"from"`
	Where   []QClause `json:"where"`
	GroupBy []string  `json:"group,omitempty"`
	OrderBy []Order   `json:"order,omitempty"`
	Having  string    `json:"having,omitempty"`
	Before  *int64    `json:"before,omitempty"`
	After   *int64    `json:"after,omitempty"`
	BetwLo  *int64    `json:"betwlo,omitempty"`
	BetwHi  *int64    `json:"betwhi,omitempty"`
	Limit   string    `json:"limit,omitempty"` // literal text, e.g. "3"^^type:int64
}

// CTriple is a CONSTRUCT / DECONSTRUCT template triple with optional extra
// predicate-object pairs (";" reification).
type CTriple struct {
	S     Tm      `json:"s"` // n | b | bn (blank node label in B)
	P     Tm      `json:"p"` // p | b | pa
	O     Tm      `json:"o"` // o | b | pa | bn
	Extra [][2]Tm `json:"extra,omitempty"`
}

// Stmt is any BQL statement.
type Stmt struct {
	Kind   string    `json:"kind"` // select | insert | delete | create | drop | construct | deconstruct | show | raw
	Q      *Query    `json:"q,omitempty"`
	Graphs []string  `json:"graphs,omitempty"` // create/drop names; insert/delete targets; construct/deconstruct outputs
	Data   []TSpec   `json:"data,omitempty"`   // insert / delete
	Tmpl   []CTriple `json:"tmpl,omitempty"`
	Raw    string    `json:"raw,omitempty"`
}

func fmtTime(n int64) string { return time.Unix(0, n).UTC().Format(time.RFC3339Nano) }

func (t Tm) render(pos byte) string {
	var s string
	switch t.K {
	case "n":
		s = V.Nodes[t.I].String()
	case "o":
		s = V.Objs[t.I].String()
	case "p":
		s = V.Preds[t.I].String()
	case "b":
		s = t.B
	case "bn":
		s = "_:" + t.B
	case "pa":
		s = fmt.Sprintf("%q@[%s]", t.ID, t.B)
	case "pb":
		lo, hi := t.LoB, t.HiB
		if t.Lo != nil {
			lo = fmtTime(*t.Lo)
		}
		if t.Hi != nil {
			hi = fmtTime(*t.Hi)
		}
		s = fmt.Sprintf("%q@[%s,%s]", t.ID, lo, hi)
	}
	if t.As != "" {
		s += " AS " + t.As
	}
	if t.Ty != "" {
		s += " TYPE " + t.Ty
	}
	if t.IDb != "" {
		s += " ID " + t.IDb
	}
	if t.At != "" {
		s += " AT " + t.At
	}
	return s
}

func (c QClause) render() string {
	s := c.S.render('s') + " " + c.P.render('p') + " " + c.O.render('o')
	if c.Opt {
		return "OPTIONAL { " + s + " }"
	}
	return s
}

func renderWhere(cs []QClause) string {
	var parts []string
	for _, c := range cs {
		parts = append(parts, c.render())
	}
	return "WHERE { " + strings.Join(parts, " . ") + " }"
}

func (q *Query) render() string {
	var ps []string
	for _, p := range q.Proj {
		x := p.B
		switch p.Agg {
		case "count":
			x = "count(" + p.B + ")"
		case "countd":
			x = "count(distinct " + p.B + ")"
		case "sum":
			x = "sum(" + p.B + ")"
		}
		if p.As != "" {
			x += " AS " + p.As
		}
		ps = append(ps, x)
	}
	s := "SELECT " + strings.Join(ps, ", ") + " FROM " + strings.Join(q.From, ", ") + " " + renderWhere(q.Where)
	if len(q.GroupBy) > 0 {
		s += " GROUP BY " + strings.Join(q.GroupBy, ", ")
	}
	if len(q.OrderBy) > 0 {
		var os []string
		for _, o := range q.OrderBy {
			x := o.B
			if o.Desc {
				x += " DESC"
			} else if o.Asc {
				x += " ASC"
			}
			os = append(os, x)
		}
		s += " ORDER BY " + strings.Join(os, ", ")
	}
	if q.Having != "" {
		s += " HAVING " + q.Having
	}
	switch {
	case q.Before != nil:
		s += " BEFORE " + fmtTime(*q.Before)
	case q.After != nil:
		s += " AFTER " + fmtTime(*q.After)
	case q.BetwLo != nil && q.BetwHi != nil:
		s += " BETWEEN " + fmtTime(*q.BetwLo) + ", " + fmtTime(*q.BetwHi)
	}
	if q.Limit != "" {
		s += " LIMIT " + q.Limit
	}
	return s + ";"
}

func renderData(ts []TSpec) string {
	var parts []string
	for _, t := range ts {
		parts = append(parts, V.Nodes[t[0]].String()+" "+V.Preds[t[1]].String()+" "+V.Objs[t[2]].String())
	}
	return "{ " + strings.Join(parts, " . ") + " }"
}

func (st *Stmt) Text() string {
	switch st.Kind {
	case "raw":
		return st.Raw
	case "select":
		return st.Q.render()
	case "insert":
		return "INSERT DATA INTO " + strings.Join(st.Graphs, ", ") + " " + renderData(st.Data) + ";"
	case "delete":
		return "DELETE DATA FROM " + strings.Join(st.Graphs, ", ") + " " + renderData(st.Data) + ";"
	case "create":
		return "CREATE GRAPH " + strings.Join(st.Graphs, ", ") + ";"
	case "drop":
		return "DROP GRAPH " + strings.Join(st.Graphs, ", ") + ";"
	case "show":
		return "SHOW GRAPHS;"
	case "construct", "deconstruct":
		var parts []string
		for _, t := range st.Tmpl {
			x := t.S.render('s') + " " + t.P.render('p') + " " + t.O.render('o')
			for _, e := range t.Extra {
				x += " ; " + e[0].render('p') + " " + e[1].render('o')
			}
			parts = append(parts, x)
		}
		kw, into := "CONSTRUCT", "INTO"
		if st.Kind == "deconstruct" {
			kw, into = "DECONSTRUCT", "IN"
		}
		s := kw + " { " + strings.Join(parts, " . ") + " } " + into + " " + strings.Join(st.Graphs, ", ") + " FROM " + strings.Join(st.Q.From, ", ") + " " + renderWhere(st.Q.Where)
		if st.Q.Having != "" {
			s += " HAVING " + st.Q.Having
		}
		return s + ";"
	}
	return ""
}

// ---------------------------------------------------------------------------
// Generators

type qgen struct {
	r     *Rand
	u     []TSpec // data universe: terms are drawn from components of these triples (so patterns hit)
	nb    int
	binds []string // bindings introduced so far, with their "kind" (position they were bound in)
	kinds map[string]string
}

func newQGen(r *Rand, u []TSpec) *qgen { return &qgen{r: r, u: u, kinds: map[string]string{}} }

func (g *qgen) fresh(kind string) string {
	g.nb++
	b := fmt.Sprintf("?b%d", g.nb)
	g.binds = append(g.binds, b)
	g.kinds[b] = kind
	return b
}

// reuse returns an existing binding of one of the kinds, or "".
func (g *qgen) reuse(kinds ...string) string {
	var cands []string
	for _, b := range g.binds {
		for _, k := range kinds {
			if g.kinds[b] == k {
				cands = append(cands, b)
			}
		}
	}
	if len(cands) == 0 {
		return ""
	}
	return cands[g.r.Intn(len(cands))]
}

type qopts struct {
	clean       bool    // stay clear of constructs with open known findings
	maxClauses  int
	optional    float64 // probability that a non-first clause is OPTIONAL
	aliases     float64
	bounds      float64
	crossKind   float64 // reuse a binding in a position of another kind
}

// clause builds one pattern clause around a sample triple of the universe.
func (g *qgen) clause(first bool, o qopts) QClause {
	r := g.r
	t := g.u[r.Intn(len(g.u))]
	var c QClause
	// subject
	switch x := r.Intn(10); {
	case x < 3:
		c.S = Tm{K: "n", I: t[0]}
	default:
		if b := g.reuse("node"); b != "" && !first && r.Chance(0.55) {
			c.S = Tm{K: "b", B: b}
		} else if b := g.reuse("obj"); b != "" && !first && r.Chance(0.4) {
			c.S = Tm{K: "b", B: b} // object binding reused as subject: joins only on nodes
		} else if b := g.reuse("pred", "time", "str"); b != "" && r.Chance(o.crossKind) {
			c.S = Tm{K: "b", B: b}
		} else {
			c.S = Tm{K: "b", B: g.fresh("node")}
		}
	}
	// an AS alias may name a binding that an earlier clause has bound already
	aliasFor := func(kinds ...string) string {
		if b := g.reuse(kinds...); b != "" && !first && r.Chance(0.3) {
			return b
		}
		return g.fresh(kinds[0])
	}
	if r.Chance(o.aliases) {
		switch r.Intn(3) {
		case 0:
			c.S.As = aliasFor("node", "obj")
		case 1:
			c.S.Ty = g.fresh("str")
		case 2:
			c.S.IDb = g.fresh("str")
		}
	}
	// predicate
	p := V.Preds[t[1]]
	// (the partially defined forms "id"@[?t] and "id"@[lo,hi] are not generated for the empty identifier: the constructors
	// refuse it and the statement layer may reject more than the grammar)
	temporal := p.Type() == 1 && p.ID() != ""
	switch x := r.Intn(10); {
	case x < 4:
		c.P = Tm{K: "p", I: t[1]}
	case x < 5 && temporal:
		if b := g.reuse("node", "obj", "pred"); b != "" && !first && r.Chance(o.crossKind) {
			// the anchor position re-uses a binding that holds nodes, literals or predicates (or NULL from an OPTIONAL)
			c.P = Tm{K: "pa", ID: string(p.ID()), B: b}
		} else if b := g.reuse("time"); b != "" && r.Chance(0.4) {
			c.P = Tm{K: "pa", ID: string(p.ID()), B: b}
		} else {
			c.P = Tm{K: "pa", ID: string(p.ID()), B: g.fresh("time")}
		}
	case x < 6 && temporal && !o.clean && r.Chance(0.25):
		// bounds taken from bindings (of an earlier clause, or unbound)
		c.P = Tm{K: "pb", ID: string(p.ID())}
		pick := func() string {
			if b := g.reuse("time"); b != "" && r.Chance(0.8) {
				return b
			}
			return "?unbound"
		}
		if r.Bool() {
			c.P.LoB = pick()
		}
		if r.Bool() || c.P.LoB == "" {
			c.P.HiB = pick()
		}
	case x < 6 && temporal && r.Chance(o.bounds):
		c.P = Tm{K: "pb", ID: string(p.ID())}
		if r.Bool() {
			n := Anchors[r.Intn(len(Anchors))].UnixNano()
			c.P.Lo = &n
		}
		if r.Bool() {
			n := Anchors[r.Intn(len(Anchors))].UnixNano()
			if c.P.Lo == nil || *c.P.Lo <= n {
				c.P.Hi = &n
			}
		}
	default:
		if b := g.reuse("pred"); b != "" && !first && r.Chance(0.5) {
			c.P = Tm{K: "b", B: b}
		} else if b := g.reuse("node", "obj"); b != "" && r.Chance(o.crossKind) {
			c.P = Tm{K: "b", B: b}
		} else {
			c.P = Tm{K: "b", B: g.fresh("pred")}
		}
	}
	if r.Chance(o.aliases) {
		switch r.Intn(3) {
		case 0:
			c.P.As = g.fresh("pred")
		case 1:
			c.P.IDb = g.fresh("str")
		case 2:
			if c.P.K != "pb" {
				c.P.At = g.fresh("time")
			}
		}
	}
	// object
	switch x := r.Intn(10); {
	case x < 3:
		c.O = Tm{K: "o", I: t[2]}
	default:
		if b := g.reuse("obj", "node"); b != "" && !first && r.Chance(0.5) {
			c.O = Tm{K: "b", B: b}
		} else if b := g.reuse("pred"); b != "" && r.Chance(o.crossKind) {
			c.O = Tm{K: "b", B: b}
		} else {
			c.O = Tm{K: "b", B: g.fresh("obj")}
		}
	}
	if r.Chance(o.aliases) {
		// what the grammar admits depends on the kind of the object token
		isLit, isNode, isPred := false, false, false
		if c.O.K == "o" {
			ob := V.Objs[c.O.I]
			_, e1 := ob.Literal()
			_, e2 := ob.Node()
			isLit, isNode, isPred = e1 == nil, e2 == nil, e1 != nil && e2 != nil
		}
		switch x := r.Intn(4); {
		case x == 0:
			c.O.As = aliasFor("obj", "node")
		case x == 1 && !isLit && !isPred:
			c.O.Ty = g.fresh("str")
		case x == 2 && !isLit && !o.clean:
			c.O.IDb = g.fresh("str")
		case x == 3 && !isLit && !isNode:
			c.O.At = g.fresh("time")
		}
	}
	if o.clean && len(clauseBindings(c)) == 0 && !(c.S.K == "n" && c.P.K == "p" && c.O.K == "o") {
		// a clause without any binding that is not fully specified (constant
		// subject and object around a predicate range) - open known finding
		c.O.As = g.fresh("obj")
	}
	return c
}

func (g *qgen) pattern(o qopts) []QClause {
	n := 1 + g.r.Intn(o.maxClauses)
	var cs []QClause
	for i := 0; i < n; i++ {
		c := g.clause(i == 0, o)
		if i > 0 && g.r.Chance(o.optional) {
			c.Opt = true
		}
		cs = append(cs, c)
	}
	if len(patternBindings(cs)) == 0 {
		// a pattern needs at least one binding to project
		cs[0].O.As = g.fresh("obj")
	}
	if o.clean {
		// keep clear of "OPTIONAL after a prefix that binds nothing" (open finding)
		for i, c := range cs {
			if c.Opt && len(patternBindings(cs[:i])) == 0 {
				cs[0].O.As = g.fresh("obj")
				break
			}
		}
	}
	return cs
}

// clauseBindings lists the bindings a clause mentions, in order of appearance.
func clauseBindings(c QClause) []string {
	var bs []string
	add := func(b string) {
		if b != "" {
			for _, x := range bs {
				if x == b {
					return
				}
			}
			bs = append(bs, b)
		}
	}
	for _, t := range []Tm{c.S, c.P, c.O} {
		if t.K == "b" || t.K == "pa" {
			add(t.B)
		}
		add(t.As)
		add(t.Ty)
		add(t.IDb)
		add(t.At)
	}
	return bs
}

func patternBindings(cs []QClause) []string {
	var bs []string
	seen := map[string]bool{}
	for _, c := range cs {
		for _, b := range clauseBindings(c) {
			if !seen[b] {
				seen[b] = true
				bs = append(bs, b)
			}
		}
	}
	return bs
}

// ---------------------------------------------------------------------------
// Statement generators

type GraphData struct {
	Name string  `json:"name"`
	Ts   []TSpec `json:"ts"`
}

// genGraphs partitions a universe over 1-3 graphs (disjoint, so that
// multiplicities of query results are defined) and may add an empty graph.
func genGraphs(r *Rand, u []TSpec, max int) []GraphData {
	n := 1 + r.Intn(max)
	gs := make([]GraphData, n)
	for i := range gs {
		gs[i].Name = fmt.Sprintf("?g%d", i)
	}
	for _, t := range u {
		if r.Chance(0.85) {
			k := r.Intn(n)
			gs[k].Ts = append(gs[k].Ts, t)
		}
	}
	return gs
}

func graphNames(gs []GraphData) []string {
	var ns []string
	for _, g := range gs {
		ns = append(ns, g.Name)
	}
	return ns
}

func pickNames(r *Rand, names []string, missing float64) []string {
	k := 1 + r.Intn(len(names))
	var out []string
	for _, i := range pickDistinct(r, len(names), k) {
		out = append(out, names[i])
	}
	if r.Chance(missing) {
		out = append(out, "?missing")
	}
	return out
}

type sopts struct {
	qopts
	group, order, limit, global float64
	missing                     float64 // probability of naming a graph that does not exist
}

func genSelect(r *Rand, u []TSpec, names []string, o sopts) *Stmt {
	g := newQGen(r, u)
	q := &Query{From: pickNames(r, names, o.missing), Where: g.pattern(o.qopts)}
	bs := patternBindings(q.Where)
	k := 1 + r.Intn(min(4, len(bs)))
	na := 0
	alias := func() string { na++; return fmt.Sprintf("?a%d", na) }
	for _, i := range pickDistinct(r, len(bs), k) {
		p := Proj{B: bs[i]}
		if r.Chance(0.2) {
			p.As = alias()
		}
		q.Proj = append(q.Proj, p)
	}
	out := func(p Proj) string {
		if p.As != "" {
			return p.As
		}
		return p.B
	}
	if r.Chance(o.group) {
		nk := 1 + r.Intn(min(2, len(q.Proj)))
		for i := range q.Proj {
			if i < nk {
				q.GroupBy = append(q.GroupBy, out(q.Proj[i]))
			} else {
				q.Proj[i].Agg = []string{"count", "countd", "sum", "count"}[r.Intn(4)]
				if q.Proj[i].As == "" {
					q.Proj[i].As = alias()
				}
			}
		}
		if len(q.GroupBy) > 1 && r.Chance(0.4) {
			// GROUP BY need not list its keys in SELECT order
			q.GroupBy[0], q.GroupBy[1] = q.GroupBy[1], q.GroupBy[0]
		}
		if r.Chance(0.5) {
			// one more aggregate over some binding
			b := bs[r.Intn(len(bs))]
			q.Proj = append(q.Proj, Proj{B: b, As: alias(), Agg: []string{"count", "countd", "sum"}[r.Intn(3)]})
		}
	}
	if r.Chance(0.15) {
		// an alias may re-use the name of a pattern binding (shadowing): the output column ?x then is not the
		// pattern binding ?x, which may itself be aggregated or projected under another name
		taken := map[string]bool{}
		for _, p := range q.Proj {
			taken[out(p)] = true
		}
		var free []string
		for _, b := range bs {
			if !taken[b] {
				free = append(free, b)
			}
		}
		var aliased []int
		for i, p := range q.Proj {
			if p.As != "" {
				aliased = append(aliased, i)
			}
		}
		if len(free) > 0 && len(aliased) > 0 {
			i, nb := aliased[r.Intn(len(aliased))], free[r.Intn(len(free))]
			for k, gname := range q.GroupBy {
				if gname == q.Proj[i].As {
					q.GroupBy[k] = nb
				}
			}
			q.Proj[i].As = nb
		}
	}
	if r.Chance(o.order) {
		for _, i := range pickDistinct(r, len(q.Proj), 1+r.Intn(min(2, len(q.Proj)))) {
			q.OrderBy = append(q.OrderBy, Order{B: out(q.Proj[i]), Desc: r.Chance(0.4), Asc: r.Chance(0.2)})
		}
	}
	if r.Chance(o.limit) {
		q.Limit = fmt.Sprintf("\"%d\"^^type:int64", r.Intn(4))
	}
	if r.Chance(o.global) {
		a, b := Anchors[r.Intn(len(Anchors))].UnixNano(), Anchors[r.Intn(len(Anchors))].UnixNano()
		switch r.Intn(3) {
		case 0:
			q.Before = &a
		case 1:
			q.After = &a
		default:
			if a > b {
				a, b = b, a
			}
			q.BetwLo, q.BetwHi = &a, &b
		}
	}
	return &Stmt{Kind: "select", Q: q}
}

func genData(r *Rand, u []TSpec, rich bool) []TSpec {
	n := 1 + r.Intn(3)
	var ts []TSpec
	for i := 0; i < n; i++ {
		if r.Chance(0.7) {
			ts = append(ts, u[r.Intn(len(u))])
		} else {
			ts = append(ts, TSpec{r.Intn(V.NodesClean), r.Intn(V.PredsClean), r.Intn(V.ObjsClean)})
		}
	}
	return ts
}

func genConstruct(r *Rand, u []TSpec, names []string, o sopts, decon bool) *Stmt {
	g := newQGen(r, u)
	oo := o.qopts
	oo.optional = 0
	q := &Query{From: pickNames(r, names, o.missing), Where: g.pattern(oo)}
	st := &Stmt{Kind: "construct", Q: q, Graphs: pickNames(r, names, o.missing)}
	if decon {
		st.Kind = "deconstruct"
	}
	pickB := func(kinds ...string) string { return g.reuse(kinds...) }
	term := func(pos byte) Tm {
		t := u[r.Intn(len(u))]
		switch pos {
		case 's':
			if b := pickB("node"); b != "" && r.Chance(0.6) {
				return Tm{K: "b", B: b}
			}
			if !decon && r.Chance(0.15) {
				return Tm{K: "bn", B: fmt.Sprintf("v%d", r.Intn(2))}
			}
			return Tm{K: "n", I: t[0]}
		case 'p':
			if b := pickB("pred"); b != "" && r.Chance(0.4) {
				return Tm{K: "b", B: b}
			}
			if b := pickB("time"); b != "" && r.Chance(0.3) {
				return Tm{K: "pa", ID: "made", B: b}
			}
			return Tm{K: "p", I: t[1]}
		default:
			if b := pickB("obj", "node", "pred"); b != "" && r.Chance(0.5) {
				return Tm{K: "b", B: b}
			}
			if b := pickB("time"); b != "" && r.Chance(0.15) {
				return Tm{K: "pa", ID: "seen", B: b}
			}
			if !decon && r.Chance(0.1) {
				return Tm{K: "bn", B: fmt.Sprintf("v%d", r.Intn(2))}
			}
			return Tm{K: "o", I: t[2]}
		}
	}
	n := 1 + r.Intn(2)
	for i := 0; i < n; i++ {
		ct := CTriple{S: term('s'), P: term('p'), O: term('o')}
		if !decon && r.Chance(0.3) {
			for j, m := 0, 1+r.Intn(2); j < m; j++ {
				ct.Extra = append(ct.Extra, [2]Tm{term('p'), term('o')})
			}
		}
		st.Tmpl = append(st.Tmpl, ct)
	}
	return st
}

// genStmt draws a statement of any kind.
func genStmt(r *Rand, u []TSpec, names []string, o sopts, mix []int) *Stmt {
	// mix: weights for select, insert, delete, create, drop, construct, deconstruct, show
	tot := 0
	for _, w := range mix {
		tot += w
	}
	x := r.Intn(tot)
	k := 0
	for ; k < len(mix); k++ {
		if x < mix[k] {
			break
		}
		x -= mix[k]
	}
	switch k {
	case 0:
		return genSelect(r, u, names, o)
	case 1:
		return &Stmt{Kind: "insert", Graphs: pickNames(r, names, o.missing), Data: genData(r, u, false)}
	case 2:
		return &Stmt{Kind: "delete", Graphs: pickNames(r, names, o.missing), Data: genData(r, u, false)}
	case 3:
		return &Stmt{Kind: "create", Graphs: pickNames(r, append(append([]string{}, names...), "?new1", "?new2"), 0)}
	case 4:
		return &Stmt{Kind: "drop", Graphs: pickNames(r, names, o.missing)}
	case 5:
		return genConstruct(r, u, names, o, false)
	case 6:
		return genConstruct(r, u, names, o, true)
	}
	return &Stmt{Kind: "show"}
}
