package harness

import (
	"fmt"
	"math"
	"sort"
	"strings"
	"time"

	"github.com/google/badwolf/bql/table"
	"github.com/google/badwolf/triple"
	"github.com/google/badwolf/triple/literal"
	"github.com/google/badwolf/triple/predicate"
)

// Reference evaluator for the BQL fragment of C03 / C10 / C11 / C12 / C14 /
// C04, written from the property statements and docs/bql.md: conjunctive
// patterns by nested-loop unification over the stored triples, left outer
// join for OPTIONAL, grouping with count / count distinct / sum, template
// instantiation. It shares no code path with the planner.

// Val is a canonical value: kind tag + value. Values of different kinds are
// never equal.
type Val string

const nullVal Val = "NULL"

func nodeVal(t *triple.Triple) Val { return Val(nodeKey(t.Subject())) }

// zoneSensitive switches the reference to treating two time anchors that are
// the same instant printed in different zones as different values (what the
// engine's text based grouping / ordering does). It is used ONLY to name a
// known finding narrowly, never to judge.
var zoneSensitive = false

// registries from canonical values back to concrete ones (template instantiation, C04)
var (
	valPreds = map[Val]*predicate.Predicate{}
	valTimes = map[Val]time.Time{}
)

func predVal(p *predicate.Predicate) Val {
	if zoneSensitive {
		return Val("P" + p.String())
	}
	v := Val("P" + predKey(p))
	valPreds[v] = p
	return v
}

func objVal(o *triple.Object) Val {
	if p, err := o.Predicate(); err == nil {
		return predVal(p)
	}
	return Val(objKey(o))
}

func timeVal(p *predicate.Predicate) Val {
	ta, _ := p.TimeAnchor()
	if zoneSensitive {
		return Val("T|" + ta.Format("2006-01-02T15:04:05.999999999Z07:00"))
	}
	v := Val(fmt.Sprintf("T|%d", ta.UnixNano()))
	valTimes[v] = *ta
	return v
}

func strVal(s string) Val { return Val("S|" + s) }

// cellVal renders an engine cell into the same canonical form.
func cellVal(c *table.Cell) Val {
	switch {
	case c == nil:
		return "MISSING"
	case c.S != nil:
		return strVal(*c.S)
	case c.N != nil:
		return Val(nodeKey(c.N))
	case c.P != nil:
		return predVal(c.P)
	case c.L != nil:
		return Val(litKey(c.L))
	case c.T != nil:
		if zoneSensitive {
			return Val("T|" + c.T.Format("2006-01-02T15:04:05.999999999Z07:00"))
		}
		return Val(fmt.Sprintf("T|%d", c.T.UnixNano()))
	}
	return nullVal
}

type assignment map[string]Val

// refInfo says how far the reference can judge a query.
type refInfo struct {
	MultDefined bool   // every clause names all its non-constant components: rows correspond 1:1 to assignments
	Ambiguous   string // non-empty: the statement leaves the answer open (not judged)
}

func inBounds(n int64, lo, hi *int64) bool {
	if lo != nil && n < *lo {
		return false
	}
	if hi != nil && n > *hi {
		return false
	}
	return true
}

// lenientOptional switches the reference to the engine's documented-by-comment
// behaviour for OPTIONAL clauses: an extraction that cannot apply to a triple
// (anchor of an immutable predicate, TYPE / ID / AT of an object of the wrong
// kind) yields NULL for that binding instead of making the triple not match.
// It is used ONLY to name a known finding narrowly, never to judge.
var lenientOptional = false

func inapplicable(c QClause, a assignment, b string) bool {
	if c.Opt && lenientOptional {
		return bind(a, b, nullVal)
	}
	return false
}

// matchPred matches a predicate-shaped term (in predicate or object position)
// against a predicate.
func matchPred(c QClause, tm Tm, p *predicate.Predicate, constKey string, a assignment) bool {
	switch tm.K {
	case "p", "o":
		if predKey(p) != constKey {
			return false
		}
	case "pa":
		if string(p.ID()) != tm.ID {
			return false
		}
		if p.Type() != predicate.Temporal {
			if !inapplicable(c, a, tm.B) {
				return false
			}
		} else if !bind(a, tm.B, timeVal(p)) {
			return false
		}
	case "pb":
		if string(p.ID()) != tm.ID || p.Type() != predicate.Temporal {
			return false
		}
		ta, _ := p.TimeAnchor()
		if !inBounds(ta.UnixNano(), tm.Lo, tm.Hi) {
			return false
		}
	}
	if tm.At != "" {
		if p.Type() != predicate.Temporal {
			if !inapplicable(c, a, tm.At) {
				return false
			}
		} else if !bind(a, tm.At, timeVal(p)) {
			return false
		}
	}
	return true
}

func bind(a assignment, b string, v Val) bool {
	if b == "" {
		return true
	}
	if old, ok := a[b]; ok {
		return old == v
	}
	a[b] = v
	return true
}

// matchClause returns the assignment under which c matches t, or nil.
func matchClause(c QClause, t *triple.Triple, q *Query) assignment {
	a := assignment{}
	s, p, o := t.Subject(), t.Predicate(), t.Object()
	// global time bounds apply to temporal predicates
	if p.Type() == predicate.Temporal {
		ta, _ := p.TimeAnchor()
		n := ta.UnixNano()
		lo, hi := q.After, q.Before
		if q.BetwLo != nil {
			lo, hi = q.BetwLo, q.BetwHi
		}
		if !inBounds(n, lo, hi) {
			return nil
		}
	}
	// subject
	switch c.S.K {
	case "n":
		if nodeKey(s) != nodeKey(V.Nodes[c.S.I]) {
			return nil
		}
	case "b":
		if !bind(a, c.S.B, Val(nodeKey(s))) {
			return nil
		}
	}
	if !bind(a, c.S.As, Val(nodeKey(s))) || !bind(a, c.S.Ty, strVal(s.Type().String())) || !bind(a, c.S.IDb, strVal(s.ID().String())) {
		return nil
	}
	// predicate
	switch c.P.K {
	case "b":
		if !bind(a, c.P.B, predVal(p)) {
			return nil
		}
	case "p":
		if !matchPred(c, c.P, p, predKey(V.Preds[c.P.I]), a) {
			return nil
		}
	default:
		if !matchPred(c, c.P, p, "", a) {
			return nil
		}
	}
	if c.P.K == "b" && c.P.At != "" {
		if p.Type() != predicate.Temporal {
			if !inapplicable(c, a, c.P.At) {
				return nil
			}
		} else if !bind(a, c.P.At, timeVal(p)) {
			return nil
		}
	}
	if !bind(a, c.P.As, predVal(p)) || !bind(a, c.P.IDb, strVal(string(p.ID()))) {
		return nil
	}
	// object
	op, opErr := o.Predicate()
	on, onErr := o.Node()
	switch c.O.K {
	case "b":
		if !bind(a, c.O.B, objVal(o)) {
			return nil
		}
	case "o":
		if objKey(o) != objKey(V.Objs[c.O.I]) {
			return nil
		}
	case "pa", "pb":
		if opErr != nil {
			// the object is not a predicate at all
			if !(c.O.K == "pa" && inapplicable(c, a, c.O.B)) {
				return nil
			}
		} else if !matchPred(c, Tm{K: c.O.K, ID: c.O.ID, B: c.O.B, Lo: c.O.Lo, Hi: c.O.Hi}, op, "", a) {
			return nil
		}
	}
	if c.O.At != "" {
		if opErr != nil || op.Type() != predicate.Temporal {
			if !inapplicable(c, a, c.O.At) {
				return nil
			}
		} else if !bind(a, c.O.At, timeVal(op)) {
			return nil
		}
	}
	if c.O.Ty != "" {
		if onErr != nil {
			if !inapplicable(c, a, c.O.Ty) {
				return nil
			}
		} else if !bind(a, c.O.Ty, strVal(on.Type().String())) {
			return nil
		}
	}
	if c.O.IDb != "" {
		switch {
		case onErr == nil:
			if !bind(a, c.O.IDb, strVal(on.ID().String())) {
				return nil
			}
		case opErr == nil:
			if !bind(a, c.O.IDb, strVal(string(op.ID()))) {
				return nil
			}
		default:
			if !inapplicable(c, a, c.O.IDb) {
				return nil
			}
		}
	}
	if !bind(a, c.O.As, objVal(o)) {
		return nil
	}
	return a
}

func akey(a assignment, bs []string) string {
	var sb strings.Builder
	for _, b := range bs {
		sb.WriteString(string(a[b]))
		sb.WriteByte(0)
	}
	return sb.String()
}

// refSolutions returns the distinct assignments of the pattern's bindings.
func refSolutions(q *Query, data map[string][]*triple.Triple) ([]assignment, refInfo) {
	info := refInfo{MultDefined: true}
	var pool []*triple.Triple
	for _, g := range q.From {
		ts, ok := data[g]
		if !ok {
			info.Ambiguous = "a FROM graph does not exist (the statement must be rejected)"
			return nil, info
		}
		pool = append(pool, ts...)
	}
	sols := []assignment{{}}
	introducedByOptional := map[string]bool{}
	seen := map[string]bool{}
	for _, c := range q.Where {
		for _, tm := range []Tm{c.P, c.O} {
			if tm.K == "pb" {
				info.MultDefined = false // the anchor inside the range is not named
				if tm.LoB != "" || tm.HiB != "" {
					info.Ambiguous = "bounds taken from bindings"
				}
			}
		}
		for _, b := range clauseBindings(c) {
			if introducedByOptional[b] {
				info.Ambiguous = "a binding introduced by an OPTIONAL clause is used again"
			}
		}
		var ms []assignment
		for _, t := range pool {
			if m := matchClause(c, t, q); m != nil {
				ms = append(ms, m)
			}
		}
		var next []assignment
		for _, s := range sols {
			matched := false
			for _, m := range ms {
				ok := true
				for b, v := range m {
					if old, has := s[b]; has && old != v {
						ok = false
						break
					}
				}
				if !ok {
					continue
				}
				matched = true
				n := assignment{}
				for b, v := range s {
					n[b] = v
				}
				for b, v := range m {
					n[b] = v
				}
				next = append(next, n)
			}
			if !matched && c.Opt {
				n := assignment{}
				for b, v := range s {
					n[b] = v
				}
				for _, b := range clauseBindings(c) {
					if _, has := n[b]; !has {
						n[b] = nullVal
					}
				}
				next = append(next, n)
			}
		}
		if c.Opt {
			for _, b := range clauseBindings(c) {
				if !seen[b] {
					introducedByOptional[b] = true
				}
			}
		}
		for _, b := range clauseBindings(c) {
			seen[b] = true
		}
		sols = next
	}
	// one solution per distinct assignment
	bs := patternBindings(q.Where)
	dedup := map[string]bool{}
	var out []assignment
	for _, s := range sols {
		k := akey(s, bs)
		if !dedup[k] {
			dedup[k] = true
			out = append(out, s)
		}
	}
	return out, info
}

// outName is the output column of a projection.
func outName(p Proj) string {
	if p.As != "" {
		return p.As
	}
	return p.B
}

// refQuery evaluates projection and grouping. Rows are returned in no
// particular order.
func refQuery(q *Query, data map[string][]*triple.Triple) (cols []string, rows [][]Val, info refInfo) {
	sols, info := refSolutions(q, data)
	for _, p := range q.Proj {
		cols = append(cols, outName(p))
	}
	if info.Ambiguous != "" {
		return cols, nil, info
	}
	if len(q.GroupBy) == 0 {
		for _, s := range sols {
			r := make([]Val, len(q.Proj))
			for i, p := range q.Proj {
				r[i] = s[p.B]
			}
			rows = append(rows, r)
		}
		return cols, rows, info
	}
	// grouping
	keyIdx := []int{}
	for _, g := range q.GroupBy {
		for i, p := range q.Proj {
			if outName(p) == g && p.Agg == "" {
				keyIdx = append(keyIdx, i)
			}
		}
	}
	groups := map[string][]assignment{}
	sumKinds := map[int]int{}
	var order []string
	for _, s := range sols {
		var kb strings.Builder
		for _, i := range keyIdx {
			kb.WriteString(string(s[q.Proj[i].B]))
			kb.WriteByte(0)
		}
		k := kb.String()
		if _, ok := groups[k]; !ok {
			order = append(order, k)
		}
		groups[k] = append(groups[k], s)
	}
	for _, k := range order {
		g := groups[k]
		r := make([]Val, len(q.Proj))
		for i, p := range q.Proj {
			switch p.Agg {
			case "":
				r[i] = g[0][p.B]
			case "count":
				r[i] = Val(fmt.Sprintf("L|int64|%d", len(g)))
			case "countd":
				d := map[Val]bool{}
				for _, s := range g {
					d[s[p.B]] = true
				}
				r[i] = Val(fmt.Sprintf("L|int64|%d", len(d)))
			case "sum":
				var si int64
				var sf float64
				ints, floats := 0, 0
				for _, s := range g {
					v := string(s[p.B])
					switch {
					case strings.HasPrefix(v, "L|int64|"):
						var x int64
						fmt.Sscanf(v[len("L|int64|"):], "%d", &x)
						si += x
						ints++
					case strings.HasPrefix(v, "L|float64|"):
						var bits uint64
						fmt.Sscanf(v[len("L|float64|"):], "%x", &bits)
						sf += math.Float64frombits(bits)
						floats++
					}
				}
				switch {
				case ints == len(g):
					r[i] = Val(fmt.Sprintf("L|int64|%d", si))
					sumKinds[i] |= 1
				case floats == len(g):
					r[i] = Val(fmt.Sprintf("SUMF|%x", math.Float64bits(sf)))
					sumKinds[i] |= 2
				default:
					info.Ambiguous = "sum over values that are not all int64 or all float64"
				}
				if sumKinds[i] == 3 {
					info.Ambiguous = "sum over a column holding int64 in one group and float64 in another"
				}
			}
		}
		rows = append(rows, r)
	}
	return cols, rows, info
}

// rowKey renders a row for multiset comparison. Float sums are compared with a
// tolerance elsewhere; here they are rendered with 13 significant digits (see sameUpToFloatSums).
func rowKey(r []Val) string {
	parts := make([]string, len(r))
	for i, v := range r {
		s := string(v)
		if strings.HasPrefix(s, "SUMF|") {
			var bits uint64
			fmt.Sscanf(s[5:], "%x", &bits)
			s = fmt.Sprintf("L|float64~%.13g", math.Float64frombits(bits))
		}
		parts[i] = s
	}
	return strings.Join(parts, " ‖ ")
}

// engineRows renders the engine's table: columns in the order of the
// projection, cells canonicalised.
func engineRows(tbl *table.Table, cols []string, floatSumCols map[int]bool) ([]string, error) {
	have := map[string]bool{}
	for _, b := range tbl.Bindings() {
		have[b] = true
	}
	var out []string
	for _, r := range tbl.Rows() {
		vals := make([]Val, len(cols))
		for i, c := range cols {
			cell, ok := r[c]
			if !ok {
				return nil, fmt.Errorf("row %v has no cell for output binding %s (table bindings %v)", r, c, tbl.Bindings())
			}
			v := cellVal(cell)
			if floatSumCols[i] && cell.L != nil && cell.L.Type() == literal.Float64 {
				f, _ := cell.L.Float64()
				v = Val(fmt.Sprintf("SUMF|%x", math.Float64bits(f)))
			}
			vals[i] = v
		}
		out = append(out, rowKey(vals))
	}
	if len(tbl.Rows()) > 0 {
		for _, c := range cols {
			if !have[c] {
				return nil, fmt.Errorf("table bindings %v lack output binding %s", tbl.Bindings(), c)
			}
		}
	}
	return out, nil
}

func refRowKeys(rows [][]Val) []string {
	out := make([]string, len(rows))
	for i, r := range rows {
		out[i] = rowKey(r)
	}
	sort.Strings(out)
	return out
}

func distinct(ss []string) []string {
	m := map[string]bool{}
	var out []string
	for _, s := range ss {
		if !m[s] {
			m[s] = true
			out = append(out, s)
		}
	}
	sort.Strings(out)
	return out
}

func dataOf(gs []GraphData) map[string][]*triple.Triple {
	m := map[string][]*triple.Triple{}
	for _, g := range gs {
		ts := []*triple.Triple{}
		for _, s := range g.Ts {
			ts = append(ts, s.Triple())
		}
		m[g.Name] = ts
	}
	return m
}
