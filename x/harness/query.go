package harness

import (
	"encoding/json"

	"github.com/google/badwolf/triple"
	"fmt"
	"sort"
	"strings"
	"testing"
)

// C03 / C10 / C11: SELECT results against the reference evaluator. Which
// (data, query) pairs are tried is seeded generation; the simulator supplies
// the engine's real concurrency - completion order and pace of driver results,
// permuted emission, fan-out width, channel sizes, map iteration order - under
// which the answer must still be the reference answer.

func init() {
	register("C03", func() Harness { return &queryHarness{prop: "C03"} })
	register("C10", func() Harness { return &queryHarness{prop: "C10"} })
	register("C11", func() Harness { return &queryHarness{prop: "C11"} })
}

type QueryCase struct {
	Graphs []GraphData `json:"graphs"`
	Q      *Query      `json:"q"`
	Text   string      `json:"text,omitempty"`
	Knobs  ExecKnobs   `json:"knobs"`
}

type queryHarness struct{ prop string }

func (h *queryHarness) Decode(b []byte) (any, error) {
	c := &QueryCase{}
	return c, json.Unmarshal(b, c)
}

func (h *queryHarness) Gen(r *Rand, tier string, clean bool) any {
	rich := r.Chance(0.3)
	// C03 exercises one instant in two zones (joins compare instants); for
	// grouping that is the open finding KF-C11-zone-sensitive-values, kept out
	// of the generated data and re-observed through its fixed witness.
	u := genUniverseZ(r, r.Range(4, 12), rich, false, h.prop == "C03")
	if h.prop == "C11" && r.Chance(0.3) {
		// values that only differ far behind the decimal point (distinct counts, group keys)
		t := u[r.Intn(len(u))]
		for _, oi := range []int{10, 29, 30} {
			u = append(u, TSpec{t[0], t[1], oi})
		}
		u = dedupSpecs(u)
	}
	c := &QueryCase{Graphs: genGraphs(r, u, 3), Knobs: genKnobs(r)}
	o := sopts{qopts: qopts{clean: clean, maxClauses: 3, aliases: 0.3, bounds: 0.5, crossKind: 0.15}, global: 0.15}
	if r.Chance(0.15) || (tier == "thorough" && r.Chance(0.3)) {
		o.maxClauses = 4
	}
	switch h.prop {
	case "C10":
		o.optional = 0.7
	case "C11":
		o.group = 1
		o.optional = 0.1
	}
	for try := 0; ; try++ {
		st := genSelect(r, u, graphNames(c.Graphs), o)
		if h.prop == "C10" {
			has := false
			for _, cl := range st.Q.Where {
				has = has || cl.Opt
			}
			if !has && try < 20 {
				continue
			}
		}
		if h.prop == "C11" && len(st.Q.GroupBy) == 0 && try < 20 {
			continue
		}
		c.Q = st.Q
		break
	}
	if h.prop == "C11" && r.Chance(0.1) {
		// grouping on a single extracted string (ID / TYPE of a component) over data in which that string may be empty:
		// group keys that render as nothing, one grouping column
		t := u[r.Intn(len(u))]
		extra := []TSpec{{t[0], 16, t[2]}, {u[r.Intn(len(u))][0], 16, u[r.Intn(len(u))][2]}, {t[0], 17, t[2]}}
		// (graphs stay disjoint: the multiplicity of a triple stored in two listed graphs is left open)
		have := map[string]bool{}
		for _, g := range c.Graphs {
			for _, x := range g.Ts {
				have[tripleKey(x.Triple())] = true
			}
		}
		for _, x := range extra {
			if k := tripleKey(x.Triple()); !have[k] && r.Chance(0.8) {
				have[k] = true
				gi := r.Intn(len(c.Graphs))
				c.Graphs[gi].Ts = append(c.Graphs[gi].Ts, x)
			}
		}
		cl := QClause{S: Tm{K: "b", B: "?s"}, P: Tm{K: "b", B: "?p", IDb: "?id"}, O: Tm{K: "b", B: "?o"}}
		if r.Chance(0.3) {
			cl.S.Ty = "?ty"
		}
		agg := []string{"count", "countd", "sum", "count"}
		c.Q = &Query{From: graphNames(c.Graphs), Where: []QClause{cl}, GroupBy: []string{"?id"},
			Proj: []Proj{{B: "?id"}, {B: "?s", As: "?n", Agg: agg[r.Intn(2)]}, {B: "?o", As: "?m", Agg: agg[r.Intn(2)]}}}
		if cl.S.Ty != "" && r.Bool() {
			c.Q.GroupBy, c.Q.Proj[0] = []string{"?ty"}, Proj{B: "?ty"}
		}
	}
	if h.prop == "C10" && r.Chance(0.12) {
		// a fully specified OPTIONAL clause with AS aliases, one already bound and one new: the only way to a
		// left join on partially overlapping bindings (range join) through BQL
		t := u[r.Intn(len(u))]
		first := QClause{S: Tm{K: "b", B: "?s"}, P: Tm{K: "b", B: "?p"}, O: Tm{K: "b", B: "?o"}}
		if r.Bool() {
			first.P = Tm{K: "p", I: t[1]}
		}
		opt := QClause{Opt: true, S: Tm{K: "n", I: t[0], As: "?s"}, P: Tm{K: "p", I: t[1]}, O: Tm{K: "o", I: t[2], As: "?new"}}
		if r.Chance(0.3) {
			opt.S.As, opt.O.As = "?new", "?o" // the object alias is the bound one
		}
		c.Q = &Query{From: graphNames(c.Graphs), Where: []QClause{first, opt}, Proj: []Proj{{B: "?s"}, {B: "?o"}, {B: "?new"}}}
	}
	return c
}

func (h *queryHarness) Shrink(ci any) []any {
	c := ci.(*QueryCase)
	var out []any
	cq := func() (*QueryCase, *Query) {
		d := *c
		q := *c.Q
		q.Where = append([]QClause{}, c.Q.Where...)
		q.Proj = append([]Proj{}, c.Q.Proj...)
		d.Q = &q
		d.Text = ""
		return &d, &q
	}
	for g := range c.Graphs {
		for i := range c.Graphs[g].Ts {
			d := *c
			d.Graphs = append([]GraphData{}, c.Graphs...)
			d.Graphs[g].Ts = append(append([]TSpec{}, c.Graphs[g].Ts[:i]...), c.Graphs[g].Ts[i+1:]...)
			out = append(out, &d)
		}
	}
	// drop a clause if the projection survives
	for i := range c.Q.Where {
		if len(c.Q.Where) > 1 {
			d, q := cq()
			q.Where = append(q.Where[:i], q.Where[i+1:]...)
			ok := true
			have := map[string]bool{}
			for _, b := range patternBindings(q.Where) {
				have[b] = true
			}
			for _, p := range q.Proj {
				ok = ok && have[p.B]
			}
			if ok {
				out = append(out, d)
			}
		}
	}
	for i := range c.Q.Proj {
		if len(c.Q.Proj) > 1 && c.Q.Proj[i].Agg != "" || (len(c.Q.GroupBy) == 0 && len(c.Q.Proj) > 1) {
			d, q := cq()
			q.Proj = append(q.Proj[:i], q.Proj[i+1:]...)
			out = append(out, d)
		}
	}
	// drop aliases
	for i, cl := range c.Q.Where {
		for _, pos := range []int{0, 1, 2} {
			tm := []Tm{cl.S, cl.P, cl.O}[pos]
			if tm.As+tm.Ty+tm.IDb+tm.At != "" {
				d, q := cq()
				n := tm
				n.As, n.Ty, n.IDb, n.At = "", "", "", ""
				ncl := cl
				switch pos {
				case 0:
					ncl.S = n
				case 1:
					ncl.P = n
				default:
					ncl.O = n
				}
				q.Where[i] = ncl
				have := map[string]bool{}
				for _, b := range patternBindings(q.Where) {
					have[b] = true
				}
				ok := true
				for _, p := range q.Proj {
					ok = ok && have[p.B]
				}
				if ok {
					out = append(out, d)
				}
			}
		}
	}
	if c.Q.Before != nil || c.Q.After != nil || c.Q.BetwLo != nil {
		d, q := cq()
		q.Before, q.After, q.BetwLo, q.BetwHi = nil, nil, nil, nil
		out = append(out, d)
	}
	if c.Knobs.Memo || c.Knobs.Pace != 0 || c.Knobs.Preempt != 0 || c.Knobs.Permute || c.Knobs.ChanSize != 0 {
		d := *c
		d.Knobs.Memo, d.Knobs.Pace, d.Knobs.Preempt, d.Knobs.Permute, d.Knobs.ChanSize = false, 0, 0, false, 0
		out = append(out, &d)
	}
	return out
}

// queryFeatures tags a query with the constructs it uses; used to name
// violation classes narrowly.
func queryFeatures(q *Query) []string {
	f := map[string]bool{}
	for i, c := range q.Where {
		if c.Opt {
			f["optional"] = true
		}
		if c.S.K == "n" && (c.P.K == "p") && c.O.K == "o" {
			f["fully-specified-clause"] = true
		} else if len(clauseBindings(c)) == 0 {
			f["bindingless-clause"] = true
		}
		for _, tm := range []Tm{c.S, c.P, c.O} {
			if tm.K == "pb" {
				f["range"] = true
			}
			if tm.K == "pa" {
				f["anchor-binding"] = true
			}
			if tm.As+tm.Ty+tm.IDb+tm.At != "" {
				f["alias"] = true
			}
		}
		_ = i
	}
	// a pattern prefix that binds nothing followed by an OPTIONAL clause
	for i, c := range q.Where {
		if c.Opt {
			if len(patternBindings(q.Where[:i])) == 0 {
				f["optional-after-bindingless-prefix"] = true
			}
			break
		}
	}
	if q.Before != nil || q.After != nil || q.BetwLo != nil {
		f["global-bounds"] = true
	}
	if len(q.GroupBy) > 0 {
		f["group"] = true
	}
	if len(q.From) > 1 {
		f["multi-graph"] = true
	}
	var fs []string
	for k := range f {
		fs = append(fs, k)
	}
	sort.Strings(fs)
	return fs
}

func (h *queryHarness) Run(t *testing.T, ci any) *Outcome {
	c := ci.(*QueryCase)
	o := okOutcome()
	text := c.Text
	if text == "" {
		text = c.Q.render()
	}
	data := dataOf(c.Graphs)
	cols, want, info := refQuery(c.Q, data)
	er := execStatement(t, c.Graphs, text, c.Knobs, nil, nil)
	if er.res == nil {
		return infra("no result: %s", er.bubble)
	}
	if er.res.Hazard != "" {
		return infra("scheduler hazard: %s", er.res.Hazard)
	}
	o.stat("steps", er.res.Steps)
	o.Det = detHash(er.res.Log, er.tapeRec, traceSig(er.trace, 1<<30), fmt.Sprint(er.err))
	feats := strings.Join(queryFeatures(c.Q), "+")
	mk := func(cls, f string, a ...any) *Outcome {
		v := violation(h.prop+":"+cls, f, a...)
		v.Detail = fmt.Sprintf("query: %s\ndata: %s\nfeatures: %s\n%s", text, jsonStr(renderGraphs(c.Graphs)), feats, v.Detail)
		v.Stats, v.Det = o.Stats, o.Det
		return v
	}
	// robustness preconditions (judged in depth by C08)
	switch {
	case er.panicV != "":
		return mk("panic:"+panicSite(er.panicV), "%s", firstLines(er.panicV, 25))
	case len(er.res.Panics) > 0:
		return mk("panic:"+panicSite(er.res.Panics[0]), "%s", firstLines(er.res.Panics[0], 25))
	case er.res.StepCap:
		o.stat("inconclusive", 1)
		o.stat("step_budget_exhausted", 1)
		return o
	case !er.done, er.res.Deadlock:
		return mk("hang", "%s", joinLines(er.res.Stuck, 8))
	}
	if info.Ambiguous != "" && h.prop == "C10" && strings.HasPrefix(info.Ambiguous, "a binding introduced by an OPTIONAL") && len(c.Q.GroupBy) == 0 && er.err == nil {
		// What a later clause matches when it re-uses a binding an OPTIONAL clause left NULL is not settled by the
		// property; that OPTIONAL clauses never REMOVE rows is. When everything from the first such clause on is OPTIONAL,
		// the solutions of the pattern before it are exactly the distinct rows of the result over that pattern's bindings.
		if v := h.optionalKeepsRows(t, c, data, mk); v != nil {
			return v
		}
		o.stat("judged_by_row_preservation_only", 1)
	}
	if info.Ambiguous != "" {
		o.stat("not_judged", 1)
		if strings.HasPrefix(info.Ambiguous, "a FROM graph does not exist") && er.err == nil {
			return mk("missing-graph-accepted", "the query names a graph that does not exist but was executed")
		}
		return o
	}
	if er.err != nil {
		if strings.Contains(feats, "bindingless-clause") {
			// Known finding "bindingless clause": the rest of the pattern is evaluated as if the clause that binds nothing
			// were absent. When the query without that clause is one whose sum() the engine legitimately refuses (values
			// that are not all int64 / all float64), the failure is that finding showing through an error, not a new one.
			q2 := *c.Q
			q2.Where = nil
			for _, cl := range c.Q.Where {
				if len(clauseBindings(cl)) > 0 || (cl.S.K == "n" && cl.P.K == "p" && cl.O.K == "o") {
					q2.Where = append(q2.Where, cl)
				}
			}
			if _, _, info2 := refQuery(&q2, data); strings.HasPrefix(info2.Ambiguous, "sum over") && strings.Contains(er.err.Error(), "can only sum") {
				return mk("bindingless-prefix-not-representable", "part of the pattern binds nothing and is evaluated as if absent; the remaining query sums values that are not all int64 / all float64, which the engine refuses: %v", er.err)
			}
		}
		return mk("unexpected-error:"+errHead(er.err.Error()), "the engine rejected / failed a query the reference answers with %d rows: %v", len(want), er.err)
	}
	floatSum := map[int]bool{}
	for i, p := range c.Q.Proj {
		if p.Agg == "sum" {
			floatSum[i] = true
		}
	}
	got, err := engineRows(er.tbl, cols, floatSum)
	if err != nil {
		return mk("malformed-table", "%v", err)
	}
	sort.Strings(got)
	wantK := refRowKeys(want)
	o.stat("ref_rows", int64(len(wantK)))
	if len(wantK) > 0 {
		o.stat("nonempty", 1)
	}
	// How strictly can rows be compared? With an un-named anchor range the
	// number of rows per assignment is the open finding one-row-per-witness:
	// plain queries are then compared as sets of distinct rows, grouped ones by
	// their set of group keys.
	mode := "multiset"
	if !info.MultDefined {
		mode = "sets"
		if len(c.Q.GroupBy) > 0 {
			mode = "groupkeys"
		}
		o.stat("compared_as_"+mode, 1)
	}
	var kidx []int
	for i, p := range c.Q.Proj {
		if p.Agg == "" {
			kidx = append(kidx, i)
		}
	}
	norm := func(rows []string) []string {
		switch mode {
		case "sets":
			return distinct(rows)
		case "groupkeys":
			var out []string
			for _, r := range rows {
				parts := strings.Split(r, " ‖ ")
				var ks []string
				for _, i := range kidx {
					if i < len(parts) {
						ks = append(ks, parts[i])
					}
				}
				out = append(out, strings.Join(ks, " ‖ "))
			}
			return distinct(out)
		}
		return rows
	}
	same := func(a, b []string) bool { return equalStrings(norm(a), norm(b)) }
	if !same(got, wantK) {
		bindingless := strings.Contains(feats, "bindingless-clause") || strings.Contains(feats, "optional-after-bindingless-prefix")
		switch {
		case bindingless && len(got) == 0:
			return mk("result-emptied-by-bindingless-clause", "a clause without bindings that is not fully specified matches, but the engine returns no rows\nreference: %q", wantK)
		case bindingless:
			return mk("bindingless-prefix-not-representable", "part of the pattern binds nothing; the working table cannot represent 'matched, no bindings' and the remaining clauses are evaluated as if that part were absent\nengine: %q\nreference: %q", got, wantK)
		}
		if alt := h.altReference(c, data, "zones"); alt != nil {
			zoneSensitive = true
			zgot, err := engineRows(er.tbl, cols, floatSum)
			zoneSensitive = false
			sort.Strings(zgot)
			if err == nil && same(zgot, alt) {
				return mk("values-compared-by-printed-zone", "the engine's answer is the reference answer if two time anchors that are the same instant in different zones counted as different values (grouping / joining on the printed form)\nengine: %q\nreference: %q", got, wantK)
			}
		}
		if alt := h.altReference(c, data, "lenient-optional"); alt != nil && same(got, alt) {
			return mk("optional-inapplicable-extraction-partial-match", "an OPTIONAL clause whose extraction cannot apply to a candidate triple still binds its other new bindings from that triple (only the extraction is NULL); by the property the triple does not match and all new bindings are NULL\nengine: %q\nreference: %q", got, wantK)
		}
		extra, missing := multisetDiff(norm(got), norm(wantK))
		return mk(rowsClass(extra, missing)+":"+feats, "rows differ from the reference (compared as %s): extra=%q missing=%q\nengine: %q\nreference: %q", mode, extra, missing, got, wantK)
	}
	if !equalStrings(got, wantK) {
		return mk("one-row-per-witness:"+feats, "the engine returns %d rows for %d solutions (or different aggregate values): a clause with an un-named anchor range yields one row per matching triple instead of one per assignment\nengine: %q\nreference: %q", len(got), len(wantK), got, wantK)
	}
	o.NonTrivial = len(wantK) > 0
	o.Hash = hashStr(text + jsonStr(c.Graphs))
	o.Sample = map[string]any{"query": text, "graphs": renderGraphs(c.Graphs), "rows": len(wantK), "knobs": c.Knobs}
	return o
}

// altReference evaluates the reference under one of the two relaxed
// semantics that name known findings (never used to judge).
// optionalKeepsRows: see the call site. The query is re-executed with the bindings of the pattern prefix as projection.
func (h *queryHarness) optionalKeepsRows(t *testing.T, c *QueryCase, data map[string][]*triple.Triple, mk func(string, string, ...any) *Outcome) *Outcome {
	introduced := map[string]bool{}
	have := map[string]bool{}
	k := -1
	for i, cl := range c.Q.Where {
		for _, b := range clauseBindings(cl) {
			if introduced[b] && k < 0 {
				k = i
			}
		}
		if k >= 0 {
			break
		}
		for _, b := range clauseBindings(cl) {
			if cl.Opt && !have[b] {
				introduced[b] = true
			}
			have[b] = true
		}
	}
	if k <= 0 {
		return nil
	}
	for _, cl := range c.Q.Where[k:] {
		if !cl.Opt {
			return nil // a mandatory clause may remove rows
		}
	}
	prefix := *c.Q
	prefix.Where = append([]QClause{}, c.Q.Where[:k]...)
	prefix.Proj, prefix.OrderBy, prefix.Limit, prefix.Having = nil, nil, "", ""
	for _, b := range patternBindings(prefix.Where) {
		prefix.Proj = append(prefix.Proj, Proj{B: b})
	}
	cols, want, info := refQuery(&prefix, data)
	if info.Ambiguous != "" || !info.MultDefined {
		return nil
	}
	full := *c.Q
	full.Proj, full.OrderBy, full.Limit, full.Having = prefix.Proj, nil, "", ""
	er := execStatement(t, c.Graphs, full.render(), c.Knobs, nil, nil)
	if er.res == nil || er.err != nil || er.res.StepCap || !er.done {
		return nil
	}
	got, err := engineRows(er.tbl, cols, nil)
	if err != nil {
		return nil
	}
	g, w := distinct(got), distinct(refRowKeys(want))
	if !equalStrings(g, w) {
		// the known finding "an OPTIONAL clause whose extraction cannot apply still binds its other new bindings"
		// changes the prefix solutions themselves: name it, do not report it as something new
		lenientOptional = true
		_, alt, ainfo := refQuery(&prefix, data)
		lenientOptional = false
		if ainfo.Ambiguous == "" && equalStrings(g, distinct(refRowKeys(alt))) {
			return mk("optional-inapplicable-extraction-partial-match", "an OPTIONAL clause whose extraction cannot apply to a candidate triple still binds its other new bindings from that triple\nengine: %q\nreference: %q", g, w)
		}
		if fs := strings.Join(queryFeatures(c.Q), "+"); strings.Contains(fs, "bindingless-clause") || strings.Contains(fs, "optional-after-bindingless-prefix") {
			// the other open finding that changes what the prefix yields: a part of the pattern that binds nothing
			if len(g) == 0 {
				return mk("result-emptied-by-bindingless-clause", "a part of the pattern that binds nothing matches, but the engine returns no rows\nreference: %q", w)
			}
			return mk("bindingless-prefix-not-representable", "part of the pattern binds nothing; the remaining clauses are evaluated as if that part were absent\nengine: %q\nreference: %q", g, w)
		}
		extra, missing := multisetDiff(g, w)
		cls := "optional-removes-rows"
		if len(missing) == 0 {
			cls = "optional-invents-rows"
		}
		return mk(cls+":chained-optional", "over the bindings of the pattern before the first OPTIONAL clause that re-uses an OPTIONAL binding, the result must hold exactly that pattern's solutions: missing=%q extra=%q\nre-executed as: %s", missing, extra, full.render())
	}
	return nil
}

func (h *queryHarness) altReference(c *QueryCase, data map[string][]*triple.Triple, which string) []string {
	switch which {
	case "zones":
		zoneSensitive = true
		defer func() { zoneSensitive = false }()
	case "lenient-optional":
		hasOpt := false
		for _, cl := range c.Q.Where {
			hasOpt = hasOpt || cl.Opt
		}
		if !hasOpt {
			return nil
		}
		lenientOptional = true
		defer func() { lenientOptional = false }()
	}
	_, rows, info := refQuery(c.Q, data)
	if info.Ambiguous != "" {
		return nil
	}
	return refRowKeys(rows)
}

func rowsClass(extra, missing []string) string {
	switch {
	case len(extra) > 0 && len(missing) == 0:
		return "rows-extra"
	case len(extra) == 0 && len(missing) > 0:
		return "rows-missing"
	}
	return "rows-differ"
}

// errHead keeps the stable head of an engine error message.
func errHead(m string) string {
	m = strings.TrimPrefix(m, "[ERROR] ")
	m = volatileRe.ReplaceAllString(m, "X")
	for _, cut := range []string{" with error ", ":"} {
		if i := strings.LastIndex(m, cut); i >= 0 && i+len(cut) < len(m) {
			m = m[i+len(cut):]
		}
	}
	m = strings.Map(func(r rune) rune {
		switch {
		case r == ' ':
			return '_'
		case r >= '0' && r <= '9':
			return -1
		}
		return r
	}, strings.TrimSpace(m))
	if len(m) > 50 {
		m = m[:50]
	}
	return m
}
