package harness

import (
	"fmt"
	"math"
	"time"

	"github.com/google/badwolf/triple"
	"github.com/google/badwolf/triple/literal"
	"github.com/google/badwolf/triple/node"
	"github.com/google/badwolf/triple/predicate"
)

// The vocabulary is a fixed, index-addressable set of nodes, predicates and
// objects. Cases refer to values by index, so a case is small, printable JSON.
// Indices below the *Clean marks form the "plain" domain; the rest are the
// near-miss values the properties single out (type/id boundary, same instant
// in another zone, literals whose byte encodings coincide, extremes).

var (
	T1 = time.Date(2006, 1, 2, 15, 4, 5, 0, time.UTC)
	T2 = time.Date(2010, 6, 1, 0, 0, 0, 500, time.UTC)
	T3 = time.Date(2016, 2, 29, 23, 59, 59, 999999999, time.UTC)
	// T2 in another zone: the same instant.
	T2z = T2.In(time.FixedZone("", 2*3600))
	T0  = time.Date(1999, 12, 31, 0, 0, 0, 0, time.UTC)
	T4  = time.Date(2020, 1, 1, 0, 0, 0, 0, time.UTC)
)

// Anchors in chronological order (distinct instants).
var Anchors = []time.Time{T0, T1, T2, T3, T4}

type Vocab struct {
	Nodes      []*node.Node
	Preds      []*predicate.Predicate
	Objs       []*triple.Object
	NodesClean int
	PredsClean int
	ObjsClean  int
}

func mustNode(t, id string) *node.Node {
	n, err := node.NewNodeFromStrings(t, id)
	if err != nil {
		panic(err)
	}
	return n
}
func mustImm(id string) *predicate.Predicate {
	p, err := predicate.NewImmutable(id)
	if err != nil {
		panic(err)
	}
	return p
}
func mustTmp(id string, t time.Time) *predicate.Predicate {
	p, err := predicate.NewTemporal(id, t)
	if err != nil {
		panic(err)
	}
	return p
}
// mustParsePred builds predicates the constructors refuse but the parser accepts (the empty identifier).
func mustParsePred(text string) *predicate.Predicate {
	p, err := predicate.Parse(text)
	if err != nil {
		panic(err)
	}
	return p
}
func mustLit(t literal.Type, v any) *triple.Object {
	l, err := literal.DefaultBuilder().Build(t, v)
	if err != nil {
		panic(err)
	}
	return triple.NewLiteralObject(l)
}

var V = buildVocab()

func buildVocab() *Vocab {
	v := &Vocab{}
	v.Nodes = []*node.Node{
		mustNode("/u", "a"), mustNode("/u", "b"), mustNode("/u", "c"), mustNode("/t/x", "a"),
		// near misses
		mustNode("/t", "ab"), mustNode("/ta", "b"),
	}
	v.NodesClean = 4
	v.Preds = []*predicate.Predicate{
		mustImm("p"), mustImm("q"), mustTmp("p", T1), mustTmp("p", T2), mustTmp("p", T3), mustTmp("q", T2), mustTmp("r", T1.Add(1)),
		mustImm("r"),
		// near misses
		mustTmp("p", T2z),
		// anchors inside one second with different printed precision (appended: indices above stay stable)
		mustTmp("p", T1.Add(500*time.Millisecond)), mustTmp("p", T1.Add(250*time.Millisecond)), mustTmp("p", T1.Add(255*time.Millisecond)),
		// boundary instants (indices 12-15; only the store-level harnesses use them, see genUniverseX): Go's zero time,
		// the Unix epoch (UnixNano()==0), the last nanosecond before it, the last nanosecond of year 9999
		mustTmp("p", time.Time{}.UTC()), mustTmp("p", time.Unix(0, 0).UTC()),
		mustTmp("q", time.Date(1969, 12, 31, 23, 59, 59, 999999999, time.UTC)), mustTmp("p", time.Date(9999, 12, 31, 23, 59, 59, 999999999, time.UTC)),
		// the empty identifier (indices 16, 17)
		mustParsePred(`""@[]`), mustParsePred(`""@[2010-06-01T00:00:00.0000005Z]`),
		// neighbours one nanosecond apart far outside the int64 nanosecond range (indices 18-21)
		mustTmp("p", time.Date(9999, 12, 31, 23, 59, 59, 999999998, time.UTC)), mustTmp("p", time.Time{}.UTC().Add(1)),
		mustTmp("q", time.Date(3000, 1, 1, 0, 0, 0, 0, time.UTC)), mustTmp("q", time.Date(3000, 1, 1, 0, 0, 0, 1, time.UTC)),
	}
	v.PredsClean = 8
	v.Objs = []*triple.Object{
		triple.NewNodeObject(v.Nodes[0]), triple.NewNodeObject(v.Nodes[1]), triple.NewNodeObject(v.Nodes[2]), triple.NewNodeObject(v.Nodes[3]),
		mustLit(literal.Bool, true), mustLit(literal.Bool, false),
		mustLit(literal.Int64, int64(1)), mustLit(literal.Int64, int64(-5)), mustLit(literal.Int64, int64(42)),
		mustLit(literal.Float64, float64(1)), mustLit(literal.Float64, 2.5), mustLit(literal.Float64, -0.5),
		mustLit(literal.Text, "a"), mustLit(literal.Text, "hello world"),
		mustLit(literal.Blob, []byte{1, 2}),
		triple.NewPredicateObject(v.Preds[0]), triple.NewPredicateObject(v.Preds[2]), triple.NewPredicateObject(v.Preds[5]),
		// near misses: byte encodings that coincide across literal types, extremes
		mustLit(literal.Text, "true"), mustLit(literal.Text, "1"), mustLit(literal.Blob, []byte("true")),
		mustLit(literal.Int64, int64(math.MaxInt64)), mustLit(literal.Int64, int64(math.MinInt64)),
		mustLit(literal.Float64, math.Inf(1)),
		triple.NewNodeObject(v.Nodes[4]), triple.NewNodeObject(v.Nodes[5]),
		mustLit(literal.Int64, int64(0)), mustLit(literal.Float64, float64(0)),
		triple.NewPredicateObject(v.Preds[8]),
		// floats that differ by less than 1e-6 (appended: indices above stay stable)
		mustLit(literal.Float64, 2.5000001), mustLit(literal.Float64, 2.50000005),
		// empty values (indices 31, 32)
		mustLit(literal.Text, ""), triple.NewPredicateObject(mustParsePred(`""@[]`)),
		// integers next to each other beyond the 53 bits a float64 holds exactly (indices 33-35)
		mustLit(literal.Int64, int64(math.MaxInt64-1)), mustLit(literal.Int64, int64(1<<53)), mustLit(literal.Int64, int64(1<<53+1)),
	}
	v.ObjsClean = 18
	return v
}

// TSpec names a triple by vocabulary indices (subject, predicate, object).
type TSpec [3]int

func (s TSpec) Triple() *triple.Triple {
	t, err := triple.New(V.Nodes[s[0]], V.Preds[s[1]], V.Objs[s[2]])
	if err != nil {
		panic(err)
	}
	return t
}

func (s TSpec) String() string { return s.Triple().String() }

// genUniverse draws n distinct triple specs. With rich=false only the plain
// domain is used. Rich adds the same instant in another zone, int64 extremes
// and +Inf. collide additionally forces pairs of values whose UUIDs coincide
// although they differ (node type/id boundary, literal byte encodings) - only
// C01, the property that defines triple identity, asks for those.
func genUniverse(r *Rand, n int, rich, collide bool) []TSpec {
	return genUniverseZ(r, n, rich, collide, true)
}

// genUniverseZ: zones=false leaves out the values that are the same instant
// written in another zone.
func genUniverseZ(r *Rand, n int, rich, collide, zones bool) []TSpec {
	return genUniverseX(r, n, rich, collide, zones, false)
}

// genUniverseX: extreme=true adds predicates anchored at boundary instants (zero time, Unix epoch, just before it,
// end of year 9999) next to the same identifiers at ordinary instants. Instants outside the int64 nanosecond range
// are only meaningful to harnesses that compare anchors as time.Time values (store level: C01, C02, C09).
func genUniverseX(r *Rand, n int, rich, collide, zones, extreme bool) []TSpec {
	ns := 2 + r.Intn(2)
	subj := pickDistinct(r, V.NodesClean, ns)
	preds := pickDistinct(r, V.PredsClean, 2+r.Intn(3))
	objs := pickDistinct(r, V.ObjsClean, 3+r.Intn(4))
	if rich {
		if zones && r.Bool() {
			preds = append(preds, 3, 8) // one instant, two zones
		}
		if zones && r.Bool() {
			objs = append(objs, 28) // predicate-valued object in the other zone
		}
		switch r.Intn(6) {
		case 0:
			objs = append(objs, 21, 22)
		case 1:
			objs = append(objs, 23)
		case 4:
			objs = append(objs, 10, 29, 30) // floats closer to each other than 1e-6
		case 5:
			objs = append(objs, []int{21, 33, 34, 35}[r.Intn(4)], 34, 35) // neighbours beyond 2^53
		case 2:
			objs = append(objs, []int{19, 26, 27}[r.Intn(3)]) // at most one member of a colliding group
		}
		if r.Bool() {
			subj = append(subj, 4+r.Intn(2))
		}
		if r.Chance(0.25) {
			// empty identifiers and texts: an ID extraction or a text value that renders as nothing
			preds = append(preds, 16+r.Intn(2))
			if r.Bool() {
				objs = append(objs, 31+r.Intn(2))
			}
		}
	}
	if extreme {
		far := []int{12, 13, 14, 15, 18, 19, 20, 21}
		for _, k := range pickDistinct(r, len(far), 1+r.Intn(4)) {
			preds = append(preds, far[k])
		}
		preds = append(preds, 2+r.Intn(3), 5)
	}
	if collide {
		if r.Bool() {
			subj = append(subj, 4, 5)
			objs = append(objs, 24, 25)
		}
		switch r.Intn(3) {
		case 0:
			objs = append(objs, 4, 18, 20)
		case 1:
			objs = append(objs, 26, 27)
		}
	}
	// distinct by structural key: the same instant in two zones is one triple
	seen := map[string]bool{}
	var out []TSpec
	for tries := 0; len(out) < n && tries < 20*n; tries++ {
		s := TSpec{subj[r.Intn(len(subj))], preds[r.Intn(len(preds))], objs[r.Intn(len(objs))]}
		if k := tripleKey(s.Triple()); !seen[k] {
			seen[k] = true
			out = append(out, s)
		}
	}
	return out
}

func pickDistinct(r *Rand, n, k int) []int {
	if k > n {
		k = n
	}
	perm := make([]int, n)
	for i := range perm {
		perm[i] = i
	}
	for i := 0; i < k; i++ {
		j := i + r.Intn(n-i)
		perm[i], perm[j] = perm[j], perm[i]
	}
	return perm[:k]
}

// ---------------------------------------------------------------------------
// Structural keys: identity of values as the properties define it, never via
// UUID().

func nodeKey(n *node.Node) string { return "N|" + n.Type().String() + "|" + n.ID().String() }

func predKey(p *predicate.Predicate) string {
	if p.Type() == predicate.Immutable {
		return "I|" + string(p.ID())
	}
	ta, _ := p.TimeAnchor()
	return fmt.Sprintf("T|%s|%s", string(p.ID()), instKey(*ta))
}

// instKey identifies an instant. Inside the int64 nanosecond range it is the familiar UnixNano value; outside
// (year 1, year 9999) seconds and nanoseconds are kept apart so that nothing wraps around.
func instKey(t time.Time) string {
	if y := t.UTC().Year(); y >= 1700 && y <= 2200 {
		return fmt.Sprint(t.UnixNano())
	}
	return fmt.Sprintf("%ds%09d", t.Unix(), t.Nanosecond())
}

func litKey(l *literal.Literal) string {
	switch l.Type() {
	case literal.Bool:
		b, _ := l.Bool()
		return fmt.Sprintf("L|bool|%v", b)
	case literal.Int64:
		i, _ := l.Int64()
		return fmt.Sprintf("L|int64|%d", i)
	case literal.Float64:
		f, _ := l.Float64()
		return fmt.Sprintf("L|float64|%x", math.Float64bits(f))
	case literal.Text:
		s, _ := l.Text()
		return "L|text|" + s
	case literal.Blob:
		b, _ := l.Blob()
		return fmt.Sprintf("L|blob|%x", b)
	}
	return "L|?"
}

func objKey(o *triple.Object) string {
	if n, err := o.Node(); err == nil {
		return nodeKey(n)
	}
	if l, err := o.Literal(); err == nil {
		return litKey(l)
	}
	if p, err := o.Predicate(); err == nil {
		return "P" + predKey(p)
	}
	return "?"
}

func tripleKey(t *triple.Triple) string {
	return nodeKey(t.Subject()) + "\t" + predKey(t.Predicate()) + "\t" + objKey(t.Object())
}
