package harness

import (
	"context"
	"encoding/json"
	"fmt"
	"sort"
	"strings"
	"testing"
	"time"

	"github.com/google/badwolf/storage"
	"github.com/google/badwolf/storage/memory"
	"github.com/google/badwolf/triple"
)

// C01 / C02 / C09: a store driven by one client through a generated history,
// refined step by step against a reference model (a map from names to sets of
// structural triple keys). This is the fault-free single-client configuration
// of the store simulation; the concurrent configuration is C07.

func init() {
	register("C01", func() Harness { return &storeHarness{prop: "C01"} })
	register("C02", func() Harness { return &storeHarness{prop: "C02"} })
	register("C09", func() Harness { return &storeHarness{prop: "C09"} })
}

type StoreOp struct {
	K  string `json:"k"`            // new | get | del | names | add | rm
	G  int    `json:"g"`            // graph name index
	Ts []int  `json:"ts,omitempty"` // universe indices (add / rm)
	H  int    `json:"h,omitempty"`  // which handle generation to use: 0 = current, n = n-th older (stale) handle
}

type StoreCase struct {
	U      []TSpec   `json:"u"`
	Names  []string  `json:"names"`
	Ops    []StoreOp `json:"ops"`
	Cap    int       `json:"cap"`
	Rich    bool     `json:"rich,omitempty"`
	Collide bool     `json:"collide,omitempty"`
	LSeed  uint64    `json:"lseed"`  // seed for lookup argument / option sampling
	LEvery int       `json:"levery"` // run the lookup oracle after every n-th op
	Render []string  `json:"render,omitempty"`
	// SlowMS > 0 (C02, C09): the case runs inside a synctest bubble and every consumer of lookup results pauses this
	// many simulated milliseconds before each of its first two receives. How fast a caller drains a lookup is not part
	// of what the lookup returns.
	SlowMS int `json:"slowms,omitempty"`
}

type storeHarness struct{ prop string }

func (h *storeHarness) Decode(b []byte) (any, error) {
	c := &StoreCase{}
	return c, json.Unmarshal(b, c)
}

func (h *storeHarness) Gen(r *Rand, tier string, clean bool) any {
	c := &StoreCase{Rich: r.Chance(0.5)}
	c.Collide = h.prop == "C01" && !clean && r.Chance(0.5)
	maxU := 20
	if tier == "thorough" {
		maxU = 24
	}
	c.U = genUniverseX(r, r.Range(8, maxU), c.Rich, c.Collide, true, c.Rich && r.Chance(0.4))
	ng := r.Range(1, 3)
	for i := 0; i < ng; i++ {
		c.Names = append(c.Names, fmt.Sprintf("?g%d", i))
	}
	c.Cap = []int{0, 0, 1, 3, 64}[r.Intn(5)]
	c.LSeed = r.U64()
	c.LEvery = r.Range(1, 4)
	nops := r.Range(4, 40)
	if r.Chance(0.1) {
		nops = r.Range(40, 90)
		if tier == "thorough" {
			nops = r.Range(40, 160)
		}
	}
	for i := 0; i < nops; i++ {
		op := StoreOp{G: r.Intn(ng)}
		switch x := r.Intn(20); {
		case i == 0 || x < 2:
			op.K = "new"
		case x < 3:
			op.K = "get"
		case x < 4:
			op.K = "del"
		case x < 5:
			op.K = "names"
		case x < 13:
			op.K = "add"
		default:
			op.K = "rm"
		}
		if op.K == "add" || op.K == "rm" {
			n := r.Intn(5)
			if r.Chance(0.1) {
				n = r.Range(5, len(c.U))
			}
			for j := 0; j < n; j++ {
				op.Ts = append(op.Ts, r.Intn(len(c.U)))
			}
			if r.Chance(0.15) && len(op.Ts) > 0 {
				op.Ts = append(op.Ts, op.Ts[0]) // duplicate inside the batch
			}
			if r.Chance(0.07) {
				op.H = 1 + r.Intn(2)
			}
		}
		c.Ops = append(c.Ops, op)
	}
	if h.prop != "C01" && r.Chance(0.15) {
		c.SlowMS = []int{300, 1500, 6000}[r.Intn(3)]
	}
	return c
}

func (h *storeHarness) Shrink(ci any) []any {
	c := ci.(*StoreCase)
	var out []any
	// drop ops (chunks first, then singles)
	for chunk := len(c.Ops) / 2; chunk >= 1; chunk /= 2 {
		for i := 0; i+chunk <= len(c.Ops); i += chunk {
			d := *c
			d.Ops = append(append([]StoreOp{}, c.Ops[:i]...), c.Ops[i+chunk:]...)
			out = append(out, &d)
		}
	}
	// shrink batches
	for i, op := range c.Ops {
		for j := range op.Ts {
			d := *c
			d.Ops = append([]StoreOp{}, c.Ops...)
			nop := op
			nop.Ts = append(append([]int{}, op.Ts[:j]...), op.Ts[j+1:]...)
			d.Ops[i] = nop
			out = append(out, &d)
		}
	}
	if c.LEvery != 1 {
		d := *c
		d.LEvery = 1
		out = append(out, &d)
	}
	if c.Cap != 0 {
		d := *c
		d.Cap = 0
		out = append(out, &d)
	}
	return out
}

// model

type mGraph struct {
	set map[string]*triple.Triple
}

func (g *mGraph) triples() []*triple.Triple {
	ks := make([]string, 0, len(g.set))
	for k := range g.set {
		ks = append(ks, k)
	}
	sort.Strings(ks)
	out := make([]*triple.Triple, len(ks))
	for i, k := range ks {
		out[i] = g.set[k]
	}
	return out
}

type handlePair struct {
	impl  storage.Graph
	model *mGraph
}

func (h *storeHarness) Run(t *testing.T, ci any) *Outcome {
	c := ci.(*StoreCase)
	if c.SlowMS <= 0 {
		return h.run(t, c)
	}
	// slow consumers: the same sequential history on the bubble's fake clock (no real time passes)
	var out *Outcome
	drainPause, drainPausePlain = time.Duration(c.SlowMS)*time.Millisecond, true
	msg := inBubble(t, func() { out = h.run(t, c) })
	drainPause, drainPausePlain = 0, false
	if msg != "" {
		if strings.Contains(msg, "deadlock") {
			return violation(h.prop+":hang-with-slow-consumer", "with consumers pausing %d simulated ms the history does not finish: %s", c.SlowMS, firstLines(msg, 6))
		}
		panic(msg)
	}
	if out != nil && out.Verdict == "ok" {
		out.stat("probe_histories_with_slow_consumers", 1)
	}
	return out
}

func (h *storeHarness) run(t *testing.T, c *StoreCase) *Outcome {
	o := okOutcome()
	ctx := context.Background()
	st := memory.NewStore()
	live := map[string]*handlePair{}     // model: name -> current graph
	hist := map[string][]*handlePair{}   // all handles ever obtained per name (newest last)
	uni := make([]*triple.Triple, len(c.U))
	for i, s := range c.U {
		uni[i] = s.Triple()
	}
	lr := NewRand(c.LSeed)
	var sig []string
	mutated, observed := false, false
	fail := func(class, f string, a ...any) *Outcome {
		v := violation(h.prop+":"+class, f, a...)
		v.Stats = o.Stats
		return v
	}

	for i, op := range c.Ops {
		progressTick()
		name := c.Names[op.G]
		switch op.K {
		case "new":
			g, err := st.NewGraph(ctx, name)
			_, exists := live[name]
			if exists != (err != nil) {
				if h.prop == "C01" {
					return fail("newgraph-outcome", "op %d NewGraph(%s): model exists=%v, err=%v", i, name, exists, err)
				}
			}
			if err == nil {
				hp := &handlePair{g, &mGraph{set: map[string]*triple.Triple{}}}
				live[name] = hp
				hist[name] = append(hist[name], hp)
			}
		case "get":
			g, err := st.Graph(ctx, name)
			hp, exists := live[name]
			if exists != (err == nil) {
				if h.prop == "C01" {
					return fail("graph-outcome", "op %d Graph(%s): model exists=%v, err=%v", i, name, exists, err)
				}
			}
			if err == nil && exists {
				hp2 := &handlePair{g, hp.model}
				hist[name] = append(hist[name], hp2)
				live[name] = hp2
			}
		case "del":
			err := st.DeleteGraph(ctx, name)
			_, exists := live[name]
			if exists != (err == nil) {
				if h.prop == "C01" {
					return fail("deletegraph-outcome", "op %d DeleteGraph(%s): model exists=%v, err=%v", i, name, exists, err)
				}
			}
			delete(live, name)
		case "names":
			// checked below with the rest of the state
		case "add", "rm":
			hs := hist[name]
			if len(hs) == 0 {
				continue
			}
			k := len(hs) - 1 - op.H
			if k < 0 {
				k = 0
			}
			hp := hs[k]
			if op.H == 0 {
				if cur, ok := live[name]; ok {
					hp = cur
				} else {
					hp = hs[len(hs)-1] // dropped graph: a stale handle by necessity
				}
			}
			batch := make([]*triple.Triple, len(op.Ts))
			for j, ti := range op.Ts {
				batch[j] = uni[ti]
			}
			var err error
			if op.K == "add" {
				err = hp.impl.AddTriples(ctx, batch)
				for _, tr := range batch {
					hp.model.set[tripleKey(tr)] = tr
				}
			} else {
				err = hp.impl.RemoveTriples(ctx, batch)
				for _, tr := range batch {
					delete(hp.model.set, tripleKey(tr))
				}
			}
			if err != nil && h.prop == "C01" {
				return fail("update-error", "op %d %s on %s returned %v", i, op.K, name, err)
			}
			if len(batch) > 0 {
				mutated = true
			}
		}
		sig = append(sig, fmt.Sprintf("%s%d:%d", op.K, op.G, len(live[name+""].safeSet())))

		// ---- C01: complete observable state after every operation
		if h.prop == "C01" {
			if v := h.checkState(ctx, st, c, live, uni, i, fail); v != nil {
				return v
			}
			if mutated {
				observed = true
			}
		}
		// ---- C02 / C09: lookups against the reference after sampled steps
		if h.prop != "C01" && (i+1)%c.LEvery == 0 {
			for _, name := range c.Names {
				hp, ok := live[name]
				if !ok {
					continue
				}
				if v := h.checkLookups(ctx, hp, c, lr, i, o, fail); v != nil {
					return v
				}
				if mutated {
					observed = true
				}
			}
		}
	}
	o.NonTrivial = mutated && observed
	o.Hash = hashStr(h.prop + strings.Join(sig, ","))
	o.Sample = c
	return o
}

func (hp *handlePair) safeSet() map[string]*triple.Triple {
	if hp == nil {
		return nil
	}
	return hp.model.set
}

func listNames(ctx context.Context, st storage.Store) ([]string, error) {
	ch := make(chan string, 16)
	var names []string
	done := make(chan struct{})
	go func() {
		for n := range ch {
			names = append(names, n)
		}
		close(done)
	}()
	err := st.GraphNames(ctx, ch)
	closedByCallee(ch)
	<-done
	return names, err
}

func (h *storeHarness) checkState(ctx context.Context, st storage.Store, c *StoreCase, live map[string]*handlePair, uni []*triple.Triple, i int,
	fail func(string, string, ...any) *Outcome) *Outcome {
	names, err := listNames(ctx, st)
	if err != nil {
		return fail("graphnames-error", "op %d: GraphNames: %v", i, err)
	}
	var want []string
	for n := range live {
		want = append(want, n)
	}
	sort.Strings(want)
	sort.Strings(names)
	if !equalStrings(want, names) {
		return fail("graphnames", "op %d: GraphNames=%v, model=%v", i, names, want)
	}
	for _, n := range want {
		hp := live[n]
		g, err := st.Graph(ctx, n)
		if err != nil {
			return fail("graph-outcome", "op %d: Graph(%s) of a live graph: %v", i, n, err)
		}
		res := doLookup(ctx, g, LookupCall{M: MTriples}, storage.DefaultLookup, c.Cap)
		if res.Err != nil {
			return fail("triples-error", "op %d: Triples(%s): %v", i, n, res.Err)
		}
		var mk []string
		for k := range hp.model.set {
			mk = append(mk, k)
		}
		sort.Strings(mk)
		got := sortedCopy(res.Keys)
		if !equalStrings(got, mk) {
			extra, missing := multisetDiff(got, mk)
			return fail(classifyListing(extra, missing, hp.model, uni), "op %d (%s): listing of %s differs from model: extra=%q missing=%q", i, opString(c, i), n, extra, missing)
		}
		for j, u := range uni {
			ex, err := g.Exist(ctx, u)
			if err != nil {
				return fail("exist-error", "op %d: Exist: %v", i, err)
			}
			_, in := hp.model.set[tripleKey(u)]
			if ex != in {
				cls := fmt.Sprintf("exist-%v-model-%v", ex, in)
				if ex && !in {
					cls += explainByCollision([]*triple.Triple{u}, uni)
				}
				return fail(cls, "op %d (%s): Exist(%s) in %s = %v, model %v", i, opString(c, i), c.U[j], n, ex, in)
			}
		}
	}
	return nil
}

func classifyListing(extra, missing []string, m *mGraph, uni []*triple.Triple) string {
	switch {
	case len(extra) > 0 && len(missing) == 0:
		var es []*triple.Triple
		for _, k := range extra {
			var f *triple.Triple
			for _, u := range uni {
				if tripleKey(u) == k {
					f = u
				}
			}
			es = append(es, f)
		}
		return "listing-extra" + explainByCollision(es, uni)
	case len(extra) == 0 && len(missing) > 0:
		var ms []*triple.Triple
		for _, k := range missing {
			ms = append(ms, m.set[k])
		}
		return "listing-missing" + explainByCollision(ms, uni)
	}
	return "listing-differs"
}

// explainByCollision narrows a violation class: it returns ":uuid-collision:<what>"
// when EVERY wrong triple is accounted for by a structurally different triple
// of the case's universe that has the same UUID (UUIDs are consulted only to name
// the finding, never to judge). Otherwise it returns "".
func explainByCollision(wrong []*triple.Triple, uni []*triple.Triple) string {
	kinds := map[string]bool{}
	for _, w := range wrong {
		if w == nil {
			return ""
		}
		found := ""
		for _, t := range uni {
			if tripleKey(t) != tripleKey(w) && t.UUID().String() == w.UUID().String() {
				found = collisionKind(w, t)
				break
			}
		}
		if found == "" {
			return ""
		}
		kinds[found] = true
	}
	// several wrong triples may be explained by different collisions (and one triple by two at once): the class
	// lists the atomic kinds once each, in a fixed order
	atoms := map[string]bool{}
	for k := range kinds {
		for _, a := range strings.Split(k, "+") {
			atoms[a] = true
		}
	}
	var ks []string
	for _, a := range []string{"node-type-id-boundary", "predicate", "literal-encoding", "object-kinds"} {
		if atoms[a] {
			ks = append(ks, a)
			delete(atoms, a)
		}
	}
	var rest []string
	for a := range atoms {
		rest = append(rest, a)
	}
	sort.Strings(rest)
	return ":uuid-collision:" + strings.Join(append(ks, rest...), "+")
}

func collisionKind(a, b *triple.Triple) string {
	var parts []string
	if nodeKey(a.Subject()) != nodeKey(b.Subject()) {
		parts = append(parts, "node-type-id-boundary")
	}
	if predKey(a.Predicate()) != predKey(b.Predicate()) {
		parts = append(parts, "predicate")
	}
	if objKey(a.Object()) != objKey(b.Object()) {
		la, ea := a.Object().Literal()
		lb, eb := b.Object().Literal()
		switch {
		case ea == nil && eb == nil && la.Type() == lb.Type():
			// two different values of ONE literal type share a UUID: not the known cross-type coincidence
			parts = append(parts, "same-type-literals:"+la.Type().String())
		case ea == nil && eb == nil:
			parts = append(parts, "literal-encoding")
		case ea != nil && eb != nil:
			if len(parts) == 0 || parts[len(parts)-1] != "node-type-id-boundary" {
				parts = append(parts, "node-type-id-boundary")
			}
		default:
			parts = append(parts, "object-kinds")
		}
	}
	return strings.Join(parts, "+")
}

func opString(c *StoreCase, i int) string {
	op := c.Ops[i]
	s := fmt.Sprintf("%s %s", op.K, c.Names[op.G])
	for _, t := range op.Ts {
		s += " [" + c.U[t].String() + "]"
	}
	return s
}

// lookup argument sampling: components of universe triples (stored or not),
// plus arbitrary vocabulary values (absent components).
func sampleCall(r *Rand, c *StoreCase, m int) LookupCall {
	lc := LookupCall{M: m}
	a, b, d := c.U[r.Intn(len(c.U))], c.U[r.Intn(len(c.U))], c.U[r.Intn(len(c.U))]
	if r.Chance(0.6) {
		b, d = a, a // components of one triple: hits
	}
	lc.S, lc.P, lc.O = a[0], b[1], d[2]
	nn, np, no := V.NodesClean, V.PredsClean, V.ObjsClean
	if c.Rich {
		np = len(V.Preds)
	}
	if r.Chance(0.1) {
		lc.S = r.Intn(nn)
	}
	if r.Chance(0.15) {
		lc.P = r.Intn(np)
	}
	if r.Chance(0.1) {
		lc.O = r.Intn(no)
	}
	return lc
}

func sampleOpts(r *Rand) OptSpec {
	var o OptSpec
	anch := func() *int64 {
		n := Anchors[r.Intn(len(Anchors))].UnixNano() + int64(r.Intn(3)-1)
		if r.Chance(0.08) {
			n = int64(r.Intn(3) - 1) // around the Unix epoch
		}
		return &n
	}
	if r.Chance(0.5) {
		o.Lo = anch()
	}
	if r.Chance(0.5) {
		o.Hi = anch()
	}
	switch r.Intn(6) {
	case 0:
		o.Latest = true
		o.Lo, o.Hi = nil, nil // LatestAnchor's interplay with a window is documented two ways; not judged
	case 1, 2, 3:
		o.FOp = []string{"latest", "isImmutable", "isTemporal"}[r.Intn(3)]
		o.FField = []string{"predicate", "object"}[r.Intn(2)]
	}
	return o
}

func (h *storeHarness) checkLookups(ctx context.Context, hp *handlePair, c *StoreCase, r *Rand, i int, o *Outcome,
	fail func(string, string, ...any) *Outcome) *Outcome {
	set := hp.model.triples()
	for m := 0; m < NumLookups; m++ {
		lc := sampleCall(r, c, m)
		if h.prop == "C02" {
			res := doLookup(ctx, hp.impl, lc, storage.DefaultLookup, c.Cap)
			o.stat("lookups", 1)
			if res.Err != nil {
				return fail("lookup-error", "after op %d: %s: %v", i, lc, res.Err)
			}
			want := refLookupKeys(set, lc, OptSpec{})
			got := sortedCopy(res.Keys)
			if len(want) > 0 {
				o.stat("lookups_nonempty", 1)
			}
			if !equalStrings(got, want) {
				extra, missing := multisetDiff(got, want)
				return fail(classifyLookup(lc, set, extra, missing), "after op %d: %s extra=%q missing=%q", i, lc, extra, missing)
			}
			continue
		}
		// C09
		os := sampleOpts(r)
		lo := os.Build()
		snap := optsSnapshot(lo)
		res := doLookup(ctx, hp.impl, lc, lo, c.Cap)
		o.stat("lookups", 1)
		if after := optsSnapshot(lo); after != snap {
			return fail("options-modified", "after op %d: %s changed its options: %s -> %s", i, lc, snap, after)
		}
		if res.Err != nil {
			return fail("lookup-error", "after op %d: %s opts=%+v: %v", i, lc, os, res.Err)
		}
		want := refLookupKeys(set, lc, os)
		got := sortedCopy(res.Keys)
		if len(want) > 0 {
			o.stat("lookups_nonempty", 1)
		}
		if !equalStrings(got, want) {
			extra, missing := multisetDiff(got, want)
			return fail(classifyOpts(lc, os, extra, missing), "after op %d: %s opts=%s extra=%q missing=%q", i, lc, jsonStr(os), extra, missing)
		}
		// paging against the implementation's own unpaged sequence
		if len(res.Keys) > 0 && r.Chance(0.5) {
			n := 1 + r.Intn(3)
			var concat []string
			for k := 0; k*n <= len(res.Keys); k++ {
				ps := os
				ps.Max, ps.Off = n, k
				pr := doLookup(ctx, hp.impl, lc, ps.Build(), c.Cap)
				o.stat("pages", 1)
				if pr.Err != nil {
					return fail("lookup-error", "after op %d: %s page %d/%d: %v", i, lc, k, n, pr.Err)
				}
				lo, hi := k*n, k*n+n
				if hi > len(res.Keys) {
					hi = len(res.Keys)
				}
				if !equalStrings(pr.Keys, res.Keys[lo:hi]) {
					return fail("page-not-block", "after op %d: %s opts=%s page size %d offset %d = %q, unpaged[%d:%d] = %q", i, lc, jsonStr(os), n, k, pr.Keys, lo, hi, res.Keys[lo:hi])
				}
				concat = append(concat, pr.Keys...)
			}
			if !equalStrings(concat, res.Keys) {
				return fail("pages-not-partition", "after op %d: %s pages of %d do not concatenate to the unpaged result", i, lc, n)
			}
		}
	}
	return nil
}

func jsonStr(v any) string {
	b, _ := json.Marshal(v)
	return string(b)
}

// classifyLookup names the violation narrowly: which side is wrong and how the
// wrong elements relate to the query.
func classifyLookup(lc LookupCall, set []*triple.Triple, extra, missing []string) string {
	side := "differs"
	switch {
	case len(extra) > 0 && len(missing) == 0:
		side = "extra"
	case len(extra) == 0 && len(missing) > 0:
		side = "missing"
	}
	rel := ""
	if side == "extra" && usesP[lc.M] {
		// are all extra results explained by "same identifier, other kind or other instant"?
		q := V.Preds[lc.P]
		relaxed := 0
		for _, t := range set {
			lc2 := lc
			if string(t.Predicate().ID()) == string(q.ID()) && predKey(t.Predicate()) != predKey(q) {
				// would match if the predicate were compared by identifier only
				ok := (!usesS[lc2.M] || nodeKey(t.Subject()) == nodeKey(V.Nodes[lc.S])) && (!usesO[lc2.M] || objKey(t.Object()) == objKey(V.Objs[lc.O]))
				if ok && t.Predicate().Type() != q.Type() {
					relaxed++
				}
			}
		}
		if relaxed >= len(extra) {
			rel = ":same-id-other-kind"
		}
	}
	return "lookup-" + side + rel
}

func classifyOpts(lc LookupCall, os OptSpec, extra, missing []string) string {
	side := "differs"
	switch {
	case len(extra) > 0 && len(missing) == 0:
		side = "extra"
	case len(extra) == 0 && len(missing) > 0:
		side = "missing"
	}
	kind := "window"
	if os.Latest {
		kind = "latestanchor"
	} else if os.FOp != "" {
		kind = os.FOp + "-" + os.FField
	}
	return "options-" + kind + "-" + side
}
