package harness

import (
	"context"
	"encoding/json"
	"fmt"
	"sort"
	"strings"
	"testing"

	"github.com/google/badwolf/storage"
	"github.com/google/badwolf/storage/memory"
	"github.com/google/badwolf/triple"
	"github.com/google/badwolf/triple/node"
	"github.com/google/badwolf/triple/predicate"
)

// C04: data and graph statements change the store exactly as stated. A
// sequence of statements runs against ONE store, each statement as a simulated
// client over the (fault-free) simulated driver, so the engine's writer
// concurrency - update() per target graph, the bulk writer of CONSTRUCT, batch
// boundaries - is scheduled by the seed. After EVERY statement the complete
// listing of EVERY graph is compared with the reference model.

func init() { register("C04", func() Harness { return &stmtHarness{} }) }

type StmtCase struct {
	Graphs []GraphData `json:"graphs"`
	Stmts  []*Stmt     `json:"stmts"`
	Knobs  ExecKnobs   `json:"knobs"`
}

type stmtHarness struct {
	tripleIndex map[string][]*triple.Triple
}

func (h *stmtHarness) Decode(b []byte) (any, error) {
	c := &StmtCase{}
	return c, json.Unmarshal(b, c)
}

func (h *stmtHarness) Gen(r *Rand, tier string, clean bool) any {
	u := genUniverseZ(r, r.Range(5, 12), r.Chance(0.3), false, false)
	c := &StmtCase{Knobs: genKnobs(r)}
	ng := r.Range(2, 4)
	c.Graphs = make([]GraphData, ng)
	for i := range c.Graphs {
		c.Graphs[i].Name = fmt.Sprintf("?g%d", i)
	}
	for _, t := range u {
		if r.Chance(0.6) {
			k := r.Intn(ng)
			c.Graphs[k].Ts = append(c.Graphs[k].Ts, t)
		}
	}
	names := graphNames(c.Graphs)
	o := sopts{qopts: qopts{clean: true, maxClauses: 2, aliases: 0.2, bounds: 0.2}, missing: 0.06}
	n := r.Range(3, 12)
	for i := 0; i < n; i++ {
		var st *Stmt
		switch x := r.Intn(100); {
		case x < 4:
			st = &Stmt{Kind: "raw", Raw: []string{"INSERT DATA INTO ?g0 { /u<a> \"p\"@[] };", "DROP ?g0;", "CONSTRUCT { ?s ?p ?o } INTO ?g0 FROM ?g1 WHERE { ?s ?p };", "DELETE DATA FROM ?g0 { /u<a> \"p\"@[] /u<b> . };", "SELECT ?x FROM ?g0 WHERE { ?s ?p ?o };"}[r.Intn(5)]}
		default:
			st = genStmt(r, u, names, o, []int{6, 22, 18, 5, 5, 26, 18, 2})
			if st.Kind == "construct" || st.Kind == "deconstruct" {
				h.tameTemplate(r, st)
			}
		}
		c.Stmts = append(c.Stmts, st)
	}
	return c
}

// tameTemplate keeps CONSTRUCT templates inside what C04 states: no explicit
// blank node labels, no HAVING.
func (h *stmtHarness) tameTemplate(r *Rand, st *Stmt) {
	fix := func(t Tm, pos byte) Tm {
		if t.K == "bn" {
			if pos == 's' {
				return Tm{K: "n", I: r.Intn(V.NodesClean)}
			}
			return Tm{K: "o", I: r.Intn(V.ObjsClean)}
		}
		return t
	}
	for i := range st.Tmpl {
		st.Tmpl[i].S = fix(st.Tmpl[i].S, 's')
		st.Tmpl[i].O = fix(st.Tmpl[i].O, 'o')
		for j := range st.Tmpl[i].Extra {
			st.Tmpl[i].Extra[j][1] = fix(st.Tmpl[i].Extra[j][1], 'o')
		}
	}
}

func (h *stmtHarness) Shrink(ci any) []any {
	c := ci.(*StmtCase)
	var out []any
	for i := range c.Stmts {
		d := *c
		d.Stmts = append(append([]*Stmt{}, c.Stmts[:i]...), c.Stmts[i+1:]...)
		out = append(out, &d)
	}
	for g := range c.Graphs {
		for i := range c.Graphs[g].Ts {
			d := *c
			d.Graphs = append([]GraphData{}, c.Graphs...)
			d.Graphs[g].Ts = append(append([]TSpec{}, c.Graphs[g].Ts[:i]...), c.Graphs[g].Ts[i+1:]...)
			out = append(out, &d)
		}
	}
	if c.Knobs.Memo || c.Knobs.Pace != 0 || c.Knobs.Preempt != 0 || c.Knobs.Permute {
		d := *c
		d.Knobs.Memo, d.Knobs.Pace, d.Knobs.Preempt, d.Knobs.Permute = false, 0, 0, false
		out = append(out, &d)
	}
	return out
}

// ---- model -------------------------------------------------------------------

// mStore: graph name -> (plain triples by key, blank-node stars as a multiset).
type mGraphC4 struct {
	plain map[string]bool
	stars map[string]int // canonical star -> count
}

func newMG() *mGraphC4 { return &mGraphC4{plain: map[string]bool{}, stars: map[string]int{}} }

func (g *mGraphC4) clone() *mGraphC4 {
	n := newMG()
	for k := range g.plain {
		n.plain[k] = true
	}
	for k, v := range g.stars {
		n.stars[k] = v
	}
	return n
}

func (g *mGraphC4) render() string {
	var ks []string
	for k := range g.plain {
		ks = append(ks, k)
	}
	for k, n := range g.stars {
		ks = append(ks, fmt.Sprintf("STAR x%d {%s}", n, k))
	}
	sort.Strings(ks)
	return strings.Join(ks, "\n")
}

func isBlank(n *node.Node) bool { return n.Type().String() == "/_" }

// observe reads the complete state of the real store into the model's form.
func observe(ctx context.Context, st storage.Store) (map[string]*mGraphC4, string) {
	names, err := listNames(ctx, st)
	if err != nil {
		return nil, "GraphNames: " + err.Error()
	}
	out := map[string]*mGraphC4{}
	for _, n := range names {
		if _, dup := out[n]; dup {
			return nil, "GraphNames lists " + n + " twice"
		}
		g, err := st.Graph(ctx, n)
		if err != nil {
			return nil, "Graph(" + n + "): " + err.Error()
		}
		all, err := allTriples(ctx, g)
		if err != nil {
			return nil, "Triples: " + err.Error()
		}
		mg := newMG()
		byBlank := map[string][]string{}
		for _, t := range all {
			if on, err := t.Object().Node(); err == nil && isBlank(on) && !isBlank(t.Subject()) {
				// a blank node as object (only legitimate when a WHERE pattern read it from a graph):
				// kept as a plain triple with the blank id canonicalised
				mg.plain[nodeKey(t.Subject())+"\t"+predKey(t.Predicate())+"\tN|/_|*"] = true
				continue
			}
			if isBlank(t.Subject()) {
				id := t.Subject().ID().String()
				byBlank[id] = append(byBlank[id], predKey(t.Predicate())+" -> "+objKey(t.Object()))
				continue
			}
			k := tripleKey(t)
			if mg.plain[k] {
				return nil, "listed twice: " + t.String()
			}
			mg.plain[k] = true
		}
		for _, pairs := range byBlank {
			sort.Strings(pairs)
			mg.stars[strings.Join(pairs, " ; ")]++
		}
		out[n] = mg
	}
	return out, ""
}

func sameState(a, b map[string]*mGraphC4) (bool, string) {
	var names []string
	seen := map[string]bool{}
	for n := range a {
		names, seen[n] = append(names, n), true
	}
	for n := range b {
		if !seen[n] {
			names = append(names, n)
		}
	}
	sort.Strings(names)
	for _, n := range names {
		ga, oka := a[n]
		gb, okb := b[n]
		switch {
		case !oka:
			return false, "graph " + n + " exists but should not"
		case !okb:
			return false, "graph " + n + " is missing"
		}
		if ga.render() != gb.render() {
			extra, missing := multisetDiff(strings.Split(gb.render(), "\n"), strings.Split(ga.render(), "\n"))
			return false, fmt.Sprintf("graph %s: unexpected=%q missing=%q", n, extra, missing)
		}
	}
	return true, ""
}

// expected effect of a statement on the model. judged=false: the statement
// leaves the outcome open (the model is then re-synchronised).
type effect struct {
	next      map[string]*mGraphC4
	wantErr   bool   // the statement must fail
	mayErr    bool   // it may fail or succeed (not specified)
	judged    bool
	why       string
	targets   []string // graphs a failing statement may have touched
}

func cloneState(s map[string]*mGraphC4) map[string]*mGraphC4 {
	n := map[string]*mGraphC4{}
	for k, v := range s {
		n[k] = v.clone()
	}
	return n
}

func specKey(t TSpec) string { return tripleKey(t.Triple()) }

func (h *stmtHarness) expect(st *Stmt, cur map[string]*mGraphC4) effect {
	e := effect{next: cloneState(cur), judged: true}
	missing := func(ns []string) bool {
		for _, n := range ns {
			if _, ok := cur[n]; !ok {
				return true
			}
		}
		return false
	}
	switch st.Kind {
	case "raw":
		e.wantErr = true
	case "select", "show":
		if st.Kind == "select" && missing(st.Q.From) {
			e.wantErr = true
		} else {
			e.mayErr = true // result judged by C03..C14; here only "no change"
		}
	case "create":
		for _, n := range st.Graphs {
			if _, ok := e.next[n]; ok {
				e.wantErr = true
			} else {
				e.next[n] = newMG()
			}
		}
	case "drop":
		for _, n := range st.Graphs {
			if _, ok := e.next[n]; ok {
				delete(e.next, n)
			} else {
				e.wantErr = true
			}
		}
	case "insert", "delete":
		for _, n := range st.Graphs {
			g, ok := e.next[n]
			if !ok {
				e.wantErr = true
				continue
			}
			for _, t := range st.Data {
				if st.Kind == "insert" {
					g.plain[specKey(t)] = true
				} else {
					delete(g.plain, specKey(t))
				}
			}
		}
		e.targets = st.Graphs
	case "construct", "deconstruct":
		if missing(st.Q.From) || missing(st.Graphs) {
			e.wantErr = true
			e.next = cloneState(cur)
			return e
		}
		data := map[string][]*triple.Triple{}
		for n, g := range cur {
			if len(g.stars) > 0 {
				for _, f := range st.Q.From {
					if f == n {
						e.judged, e.why = false, "the WHERE pattern reads a graph that holds blank nodes"
					}
				}
			}
			_ = g
		}
		if !e.judged {
			return e
		}
		seenIn := map[string]int{}
		for _, f := range st.Q.From {
			data[f] = h.tripleIndex[f]
			for _, tr := range data[f] {
				seenIn[tripleKey(tr)]++
			}
		}
		hasExtra := false
		for _, tmpl := range st.Tmpl {
			hasExtra = hasExtra || len(tmpl.Extra) > 0
		}
		for _, n := range seenIn {
			if n > 1 && hasExtra {
				e.judged, e.why = false, "the same triple is stored in more than one FROM graph: the number of rows (hence of reified blank nodes) is left open"
				return e
			}
		}
		sols, info := refSolutions(st.Q, data)
		if info.Ambiguous != "" || !info.MultDefined {
			e.judged, e.why = false, "the WHERE pattern is not judged: "+info.Ambiguous
			return e
		}
		e.targets = st.Graphs
		var plain []string
		var stars []string
		for _, tmpl := range st.Tmpl {
			for _, s := range sols {
				sub, p, ob, ok := h.instantiate(tmpl.S, tmpl.P, tmpl.O, s)
				if !ok {
					e.wantErr, e.mayErr = false, true // a value of the wrong kind for the position: must fail, partial writes are not specified
					e.judged, e.why = false, "a binding holds a value that cannot stand in the template position"
					return e
				}
				if strings.HasPrefix(ob, "N|/_|") || strings.HasPrefix(sub, "N|/_|") {
					// a blank node that the WHERE pattern read from a graph (stored there as somebody's object) is written
					// again: observe() canonicalises such ids, several of them collapse to one key - executed, checked for
					// collateral changes, the model is re-synchronised, not judged
					e.judged, e.why = false, "the template writes a blank node read from a graph"
					return e
				}
				if len(tmpl.Extra) == 0 {
					plain = append(plain, sub+"\t"+predKey(p)+"\t"+ob)
					continue
				}
				rp := func(id string) string {
					if p.Type() == predicate.Temporal {
						ta, _ := p.TimeAnchor()
						return fmt.Sprintf("T|%s|%d", id, ta.UnixNano())
					}
					return "I|" + id
				}
				pairs := []string{rp("_subject") + " -> " + sub, rp("_predicate") + " -> P" + predKey(p), rp("_object") + " -> " + ob}
				for _, ex := range tmpl.Extra {
					_, ep, eo, ok := h.instantiate(Tm{K: "n", I: 0}, ex[0], ex[1], s)
					if !ok {
						e.mayErr, e.judged, e.why = true, false, "a binding holds a value that cannot stand in the template position"
						return e
					}
					pairs = append(pairs, predKey(ep)+" -> "+eo)
				}
				stars = append(stars, strings.Join(distinct(pairs), " ; ")) // a graph is a set: equal pairs on one blank node are one triple
			}
		}
		for _, n := range st.Graphs {
			g := e.next[n]
			for _, k := range plain {
				if st.Kind == "construct" {
					g.plain[k] = true
				} else {
					delete(g.plain, k)
				}
			}
			for _, s := range stars {
				g.stars[s]++
			}
		}
	}
	return e
}

// instantiate returns the structural keys of a template triple under a solution.
func (h *stmtHarness) instantiate(s, p, o Tm, sol assignment) (sub string, pr *predicate.Predicate, ob string, ok bool) {
	switch s.K {
	case "n":
		sub = nodeKey(V.Nodes[s.I])
	case "b":
		v := string(sol[s.B])
		if !strings.HasPrefix(v, "N|") {
			return "", nil, "", false
		}
		sub = v
	default:
		return "", nil, "", false
	}
	switch p.K {
	case "p":
		pr = V.Preds[p.I]
	case "b":
		x, okk := valPreds[sol[p.B]]
		if !okk {
			return "", nil, "", false
		}
		pr = x
	case "pa":
		n, okk := valTimes[sol[p.B]]
		if !okk {
			return "", nil, "", false
		}
		pr = mustTmp(p.ID, n)
	default:
		return "", nil, "", false
	}
	switch o.K {
	case "o":
		ob = objKey(V.Objs[o.I])
	case "b":
		v := string(sol[o.B])
		if strings.HasPrefix(v, "S|") || strings.HasPrefix(v, "T|") || v == string(nullVal) || v == "" {
			return "", nil, "", false
		}
		ob = v
	case "pa":
		n, okk := valTimes[sol[o.B]]
		if !okk {
			return "", nil, "", false
		}
		ob = "P" + predKey(mustTmp(o.ID, n))
	default:
		return "", nil, "", false
	}
	return sub, pr, ob, true
}

func (h *stmtHarness) Run(t *testing.T, ci any) *Outcome {
	c := ci.(*StmtCase)
	o := okOutcome()
	ctx := context.Background()
	inner := buildStore(ctx, c.Graphs)
	model := map[string]*mGraphC4{}
	for _, g := range c.Graphs {
		mg := newMG()
		for _, s := range g.Ts {
			mg.plain[specKey(s)] = true
		}
		model[g.Name] = mg
	}
	kr := NewRand(c.Knobs.Sched, 4)
	execSeq = 0
	var dets, sig []string
	changed := false
	for i, st := range c.Stmts {
		text := st.Text()
		// triples of the current state, for the reference evaluator
		h.tripleIndex = h.currentTriples(ctx, inner)
		exp := h.expect(st, model)
		k := c.Knobs
		if i > 0 {
			k = knobsVariant(c.Knobs, kr)
		}
		er := execStatement(t, nil, text, k, nil, inner)
		o.Execs++
		if er.res == nil {
			return infra("no result: %s", er.bubble)
		}
		if er.res.Hazard != "" {
			return infra("scheduler hazard: %s", er.res.Hazard)
		}
		o.stat("steps", er.res.Steps)
		dets = append(dets, detHash(er.res.Log, er.tapeRec, traceSig(er.trace, 1<<30), fmt.Sprint(er.err)))
		mk := func(cls, f string, a ...any) *Outcome {
			v := violation("C04:"+cls+":"+st.Kind, f, a...)
			var hist []string
			for j := 0; j <= i; j++ {
				hist = append(hist, c.Stmts[j].Text())
			}
			v.Detail = fmt.Sprintf("statement %d: %s\n%s\nstatements so far:\n%s\ninitial data: %s", i, text, v.Detail, strings.Join(hist, "\n"), jsonStr(renderGraphs(c.Graphs)))
			v.Stats, v.Execs = o.Stats, o.Execs
			return v
		}
		switch {
		case er.panicV != "":
			return mk("panic:"+panicSite(er.panicV), "%s", firstLines(er.panicV, 25))
		case len(er.res.Panics) > 0:
			return mk("panic:"+panicSite(er.res.Panics[0]), "%s", firstLines(er.res.Panics[0], 25))
		case er.res.StepCap:
			// a legitimately large statement (cross products over data that earlier CONSTRUCTs grew)
			// exhausted the step budget: inconclusive, the case ends here. Hangs proper are
			// "no runnable task" (below) and are judged in depth by C08 / C20 on small workloads.
			o.stat("inconclusive", 1)
			o.stat("step_budget_exhausted", 1)
			return o
		case !er.done, er.res.Deadlock:
			return mk("hang", "%s", joinLines(er.res.Stuck, 8))
		case er.res.Leaked > 0:
			return mk("goroutine-left", "%s", er.res.LeakDump)
		}
		got, msg := observe(ctx, inner)
		if msg != "" {
			return mk("malformed-store", "%s", msg)
		}
		sig = append(sig, fmt.Sprintf("%s:%v", st.Kind, er.err == nil))
		if !exp.judged {
			o.stat("statements_not_judged", 1)
			// graphs that are not targets must still be untouched
			for n, g := range model {
				isTarget := false
				for _, tn := range st.Graphs {
					isTarget = isTarget || tn == n
				}
				if gg, ok := got[n]; !isTarget && (!ok || gg.render() != g.render()) {
					return mk("other-graph-changed", "graph %s is not a target of the statement but changed", n)
				}
			}
			model = got
			continue
		}
		o.stat("statements_judged", 1)
		if exp.wantErr && er.err == nil {
			return mk("accepted-but-must-fail", "the statement reported success")
		}
		if er.err != nil {
			if !exp.wantErr && !exp.mayErr {
				return mk("unexpected-error:"+errHead(er.err.Error()), "%v", er.err)
			}
			// a failed statement: graphs that are not its targets are unchanged; a
			// statement rejected before execution leaves everything unchanged
			rejectedEarly := st.Kind == "raw" || st.Kind == "select" || st.Kind == "construct" || st.Kind == "deconstruct"
			for n, g := range model {
				isTarget := false
				for _, tn := range exp.targets {
					isTarget = isTarget || tn == n
				}
				if st.Kind == "create" || st.Kind == "drop" {
					continue
				}
				if gg, ok := got[n]; (!isTarget || rejectedEarly) && (!ok || gg.render() != g.render()) {
					return mk("failed-statement-changed-a-graph", "the statement failed (%v) but graph %s changed", er.err, n)
				}
			}
			if st.Kind == "create" || st.Kind == "drop" || st.Kind == "insert" || st.Kind == "delete" {
				// per-name / per-target semantics are documented: the parts that can be done are done
				if ok, why := sameState(exp.next, got); !ok {
					return mk("partial-effect-differs", "the statement failed (%v); %s", er.err, why)
				}
			}
			model = got
			continue
		}
		if ok, why := sameState(exp.next, got); !ok {
			return mk("state-differs", "%s", why)
		}
		if ok, _ := sameState(model, got); !ok {
			changed = true
		}
		model = exp.next
	}
	o.NonTrivial = changed
	o.Hash = hashStr(strings.Join(sig, ",") + jsonStr(c.Graphs) + fmt.Sprint(len(c.Stmts)))
	o.Det = hashStr(strings.Join(dets, ""))
	var texts []string
	for _, st := range c.Stmts {
		texts = append(texts, st.Text())
	}
	o.Sample = map[string]any{"statements": texts, "graphs": renderGraphs(c.Graphs)}
	return o
}

func (h *stmtHarness) currentTriples(ctx context.Context, st storage.Store) map[string][]*triple.Triple {
	out := map[string][]*triple.Triple{}
	names, _ := listNames(ctx, st)
	for _, n := range names {
		g, err := st.Graph(ctx, n)
		if err != nil {
			continue
		}
		all, _ := allTriples(ctx, g)
		out[n] = append(out[n], all...)
	}
	return out
}

var _ = memory.NewStore
