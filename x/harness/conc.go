package harness

import (
	"context"
	"encoding/json"
	"fmt"
	"sort"
	"strings"
	"sync"
	"testing"
	"time"

	"github.com/anishathalye/porcupine"
	"github.com/google/badwolf/storage"
	"github.com/google/badwolf/bql/table"
	"github.com/google/badwolf/storage/memory"
	"github.com/google/badwolf/tools/vcli/bw/server"
	"github.com/google/badwolf/triple"
	"github.com/google/badwolf/xverif/sim"
)

// C07: several simulated clients use one store concurrently. Every switch
// point is a statement boundary of the instrumented storage/memory copy; the
// schedule is drawn from the tape. Oracles: linearizability of the recorded
// history (porcupine) against the set model, no panic, no deadlock, channel
// closed exactly once, shared lookup options never modified (checked between
// every two scheduler steps), bounded completion.

func init() { register("C07", func() Harness { return &concHarness{} }) }

type ConcOp struct {
	K   string      `json:"k"` // add | rm | exist | lookup | names | new | get | del
	G   int         `json:"g"`
	Ts  []int       `json:"ts,omitempty"`
	L   *LookupCall `json:"l,omitempty"`
	Opt int         `json:"opt,omitempty"` // index into Opts (shared values); -1 = storage.DefaultLookup
	Done bool       `json:"done,omitempty"` // lookup: the caller's context is already done when the call is made
}

type ConcCase struct {
	U       []TSpec    `json:"u"`
	Names   []string   `json:"names"`
	Pre     [][]int    `json:"pre"` // initial content per graph
	Absent  []int      `json:"absent,omitempty"` // names that do not exist when the clients start
	SlowMS  int        `json:"slowms,omitempty"` // consumers of lookup results pause this many simulated milliseconds before each of the first two elements
	Clients [][]ConcOp `json:"clients"`
	Opts    []OptSpec  `json:"opts"`
	Cap     int        `json:"cap"`
	Sched   uint64     `json:"sched"`
	Preempt int        `json:"preempt"`
	PMean   int        `json:"pmean"`
	WPref   bool       `json:"wpref"`
	Focus   int        `json:"focus,omitempty"` // >0: one extra preemption within this many steps of the start of every write
	Tape    []uint32   `json:"tape,omitempty"` // explicit schedule (replay / minimised)
}

type concHarness struct{}

func (h *concHarness) Decode(b []byte) (any, error) {
	c := &ConcCase{}
	return c, json.Unmarshal(b, c)
}

func (h *concHarness) Gen(r *Rand, tier string, clean bool) any {
	c := &ConcCase{}
	c.U = genUniverse(r, r.Range(3, 7), r.Chance(0.3), false)
	ng := 1 + r.Intn(2)
	for i := 0; i < ng; i++ {
		c.Names = append(c.Names, fmt.Sprintf("?g%d", i))
		var pre []int
		for j := range c.U {
			if r.Chance(0.3) {
				pre = append(pre, j)
			}
		}
		c.Pre = append(c.Pre, pre)
	}
	// some runs have a name that does not exist at the start: concurrent creation / drop of one name
	if ng < 3 && r.Chance(0.3) {
		c.Names = append(c.Names, "?gx")
		c.Pre = append(c.Pre, nil)
		c.Absent = []int{len(c.Names) - 1}
	}
	// shared option values: default-like, a window, LatestAnchor, a filter
	c.Opts = []OptSpec{{}, {Latest: true}, {FOp: "isTemporal", FField: "predicate"}}
	switch r.Intn(3) {
	case 0:
		c.Opts = append(c.Opts, OptSpec{Latest: true, FOp: "isImmutable", FField: "predicate"}) // must fail cleanly
	case 1:
		c.Opts = append(c.Opts, OptSpec{FOp: "latest", FField: "subject"}) // must fail cleanly
	}
	if r.Bool() {
		lo := Anchors[1+r.Intn(3)].UnixNano()
		c.Opts = append(c.Opts, OptSpec{Lo: &lo})
	}
	if r.Chance(0.1) {
		c.SlowMS = []int{50, 2000, 10000}[r.Intn(3)]
	}
	// second configuration: some clients talk BQL (server.BQL) to the same store
	bql := r.Chance(0.35)
	ncl, maxTotal := r.Range(2, 4), 12
	if tier == "thorough" && r.Chance(0.3) {
		ncl, maxTotal = r.Range(3, 5), 16
	}
	total := 0
	for i := 0; i < ncl; i++ {
		n := r.Range(1, 4)
		if total+n > maxTotal {
			n = 1
		}
		total += n
		var ops []ConcOp
		for j := 0; j < n; j++ {
			op := ConcOp{G: r.Intn(ng), Opt: -1}
			if len(c.Absent) > 0 && !bql && r.Chance(0.5) {
				op.G = c.Absent[0]
				op.K = []string{"new", "new", "get", "del", "names", "add"}[r.Intn(6)]
				if op.K == "add" {
					op.Ts = []int{r.Intn(len(c.U))}
				}
				ops = append(ops, op)
				continue
			}
			switch x := r.Intn(100); {
			case x < 6 && bql:
				op.K = "qinsert"
			case x < 10 && bql:
				op.K = "qdelete"
			case x < 18 && bql:
				op.K = "qselect"
			case x < 25:
				op.K = "add"
			case x < 45:
				op.K = "rm"
			case x < 55:
				op.K = "exist"
			case x < 88:
				op.K = "lookup"
			case x < 91:
				op.K = "names"
			case bql:
				// a BQL statement resolves its graph by name and then works on the handle: two store
				// operations. With graphs created / dropped concurrently that has no single
				// linearization point, so these runs keep the set of graphs fixed.
				op.K = "exist"
			case x < 94:
				op.K = "new"
			case x < 97:
				op.K = "get"
			default:
				op.K = "del"
			}
			switch op.K {
			case "add", "rm", "qinsert", "qdelete":
				for _, k := range pickDistinct(r, len(c.U), r.Range(1, 3)) {
					op.Ts = append(op.Ts, k)
				}
			case "exist":
				op.Ts = []int{r.Intn(len(c.U))}
			case "lookup":
				m := r.Intn(NumLookups)
				if r.Chance(0.35) {
					m = MTriples
				}
				u := c.U[r.Intn(len(c.U))]
				op.L = &LookupCall{M: m, S: u[0], P: u[1], O: u[2]}
				if r.Chance(0.5) {
					op.Opt = r.Intn(len(c.Opts))
				}
				op.Done = r.Chance(0.08)
			case "qselect":
				op.Done = r.Chance(0.15) // a statement whose context is already done (the request timed out before it started)
			}
			ops = append(ops, op)
		}
		c.Clients = append(c.Clients, ops)
	}
	c.Cap = []int{0, 0, 1, 8}[r.Intn(4)]
	c.Sched = r.U64()
	c.Preempt = r.Intn(6)
	c.PMean = []int{10, 30, 80}[r.Intn(3)]
	c.WPref = r.Bool()
	if r.Bool() {
		c.Focus = []int{20, 60, 150}[r.Intn(3)]
	}
	return c
}

func (h *concHarness) Shrink(ci any) []any {
	c := ci.(*ConcCase)
	var out []any
	cp := func() *ConcCase {
		d := *c
		d.Clients = make([][]ConcOp, len(c.Clients))
		for i := range c.Clients {
			d.Clients[i] = append([]ConcOp{}, c.Clients[i]...)
		}
		d.Tape = nil
		return &d
	}
	// drop a client, drop an op; re-search schedules (Tape cleared) with a few schedule seeds
	for i := range c.Clients {
		if len(c.Clients) > 1 {
			d := cp()
			d.Clients = append(d.Clients[:i], d.Clients[i+1:]...)
			out = append(out, d)
		}
	}
	for i := range c.Clients {
		for j := range c.Clients[i] {
			d := cp()
			d.Clients[i] = append(d.Clients[i][:j], d.Clients[i][j+1:]...)
			out = append(out, d)
		}
	}
	for i := range c.Clients {
		for j, op := range c.Clients[i] {
			if len(op.Ts) > 1 {
				for k := range op.Ts {
					d := cp()
					nop := op
					nop.Ts = append(append([]int{}, op.Ts[:k]...), op.Ts[k+1:]...)
					d.Clients[i][j] = nop
					out = append(out, d)
				}
			}
		}
	}
	for g := range c.Pre {
		if len(c.Pre[g]) > 0 {
			d := cp()
			d.Pre = append([][]int{}, c.Pre...)
			d.Pre[g] = nil
			out = append(out, d)
		}
	}
	// schedule variants of the structural candidates
	n := len(out)
	for i := 0; i < n; i++ {
		for s := uint64(1); s <= 3; s++ {
			d := *(out[i].(*ConcCase))
			d.Sched = c.Sched + s*7919
			out = append(out, &d)
		}
	}
	if c.Preempt > 0 {
		d := cp()
		d.Preempt = c.Preempt - 1
		out = append(out, d)
	}
	// explicit tape minimisation: truncate / zero entries
	if len(c.Tape) > 0 {
		for cut := len(c.Tape) / 2; cut >= 1; cut /= 2 {
			d := *c
			d.Tape = append([]uint32{}, c.Tape[:len(c.Tape)-cut]...)
			out = append(out, &d)
		}
		for i, v := range c.Tape {
			if v != 0 {
				d := *c
				d.Tape = append([]uint32{}, c.Tape...)
				d.Tape[i] = 0
				out = append(out, &d)
			}
		}
	}
	return out
}

// ---- linearizability model ------------------------------------------------

const maxGraphObjs = 24

type linState struct {
	bound [3]int8            // name index -> graph object id (-1 = none)
	sets  [maxGraphObjs]uint16 // graph object id -> set of universe indices
}

type linIn struct {
	k    string
	name int    // store-level ops
	gid  int    // graph object the handle refers to
	newG int    // graph object id a successful NewGraph creates
	mask uint16 // add: batch; rm: single bit; exist: bit
	lc   *LookupCall
	opt  *OptSpec
	anyResult bool // result not judged (only closure etc.)
	ctxDone   bool // the call was made with a context that was already done
	byName    bool // the graph is resolved by name when the operation takes effect (BQL statements)
}

type linOut struct {
	err   bool
	gid   int
	b     bool
	names uint8
	keys  string // sorted keys joined
}

func (h *concHarness) model(c *ConcCase, uni []*triple.Triple) porcupine.Model {
	refKeys := func(set uint16, lc *LookupCall, o *OptSpec) string {
		var ts []*triple.Triple
		for i, u := range uni {
			if set&(1<<uint(i)) != 0 {
				ts = append(ts, u)
			}
		}
		os := OptSpec{}
		if o != nil {
			os = *o
		}
		return strings.Join(refLookupKeys(ts, *lc, os), "\n")
	}
	return porcupine.Model{
		Init: func() interface{} {
			var s linState
			for i := range s.bound {
				s.bound[i] = -1
			}
			for g := range c.Names {
				if isAbsent(c, g) {
					continue
				}
				s.bound[g] = int8(g)
				for _, ti := range c.Pre[g] {
					s.sets[g] |= 1 << uint(ti)
				}
			}
			return s
		},
		Step: func(state, input, output interface{}) (bool, interface{}) {
			s := state.(linState)
			in := input.(linIn)
			out := output.(linOut)
			if in.byName {
				if s.bound[in.name] < 0 {
					return out.err, s // the statement names a graph that does not exist
				}
				in.gid = int(s.bound[in.name])
			}
			switch in.k {
			case "new":
				if s.bound[in.name] >= 0 {
					return out.err, s
				}
				if out.err {
					return false, s
				}
				s.bound[in.name] = int8(in.newG)
				s.sets[in.newG] = 0
				return true, s
			case "get":
				if s.bound[in.name] < 0 {
					return out.err, s
				}
				return !out.err && out.gid == int(s.bound[in.name]), s
			case "del":
				if s.bound[in.name] < 0 {
					return out.err, s
				}
				if out.err {
					return false, s
				}
				s.bound[in.name] = -1
				return true, s
			case "names":
				var m uint8
				for i, b := range s.bound {
					if b >= 0 {
						m |= 1 << uint(i)
					}
				}
				return !out.err && out.names == m, s
			case "add":
				if out.err {
					return false, s
				}
				s.sets[in.gid] |= in.mask
				return true, s
			case "rm1":
				if out.err {
					return false, s
				}
				s.sets[in.gid] &^= in.mask
				return true, s
			case "exist":
				return !out.err && out.b == (s.sets[in.gid]&in.mask != 0), s
			case "lookup":
				if in.anyResult {
					return true, s
				}
				return !out.err && out.keys == refKeys(s.sets[in.gid], in.lc, in.opt), s
			}
			return false, s
		},
		DescribeOperation: func(input, output interface{}) string {
			return fmt.Sprintf("%+v -> %+v", input, output)
		},
	}
}

// ---- execution --------------------------------------------------------------

type concEvent struct {
	client   int
	in       linIn
	out      linOut
	call     int64
	ret      int64
	desc     string
	finished bool
}

func (h *concHarness) Run(t *testing.T, ci any) *Outcome {
	c := ci.(*ConcCase)
	o := okOutcome()
	if len(c.U) > 16 || len(c.Names) > 3 {
		return infra("case out of bounds")
	}
	uni := make([]*triple.Triple, len(c.U))
	for i, s := range c.U {
		uni[i] = s.Triple()
	}
	ctx := context.Background()
	var tape *sim.Tape
	if c.Tape != nil {
		tape = sim.ReplayTape(c.Tape)
	} else {
		tape = sim.NewTape(c.Sched)
	}

	// shared lookup options, snapshotted
	shared := make([]*storage.LookupOptions, len(c.Opts))
	snaps := make([]string, len(c.Opts))
	for i, os := range c.Opts {
		shared[i] = os.Build()
		snaps[i] = optsSnapshot(shared[i])
	}
	defSnap := optsSnapshot(storage.DefaultLookup)

	var events []*concEvent
	var violations []string // oracle 2 findings noted by clients (channel closure, nil element, ...)
	var vmu sync.Mutex
	note := func(s string) {
		vmu.Lock()
		violations = append(violations, s)
		vmu.Unlock()
	}
	gids := map[storage.Graph]int{}
	nextG := len(c.Names)
	var st storage.Store

	cfg := sim.Config{Preempt: c.Preempt, PreemptMean: c.PMean, WriterPref: c.WPref, MaxSteps: 60000, Trace: traceOn,
		Invariant: func() string {
			for i, lo := range shared {
				if s := optsSnapshot(lo); s != snaps[i] {
					return fmt.Sprintf("shared LookupOptions #%d modified while a lookup is in flight: %s -> %s", i, snaps[i], s)
				}
			}
			if s := optsSnapshot(storage.DefaultLookup); s != defSnap {
				return "storage.DefaultLookup modified: " + defSnap + " -> " + s
			}
			return ""
		}}

	drainPause = time.Duration(c.SlowMS) * time.Millisecond
	defer func() { drainPause = 0 }()
	sim.SetMapSeed(c.Sched | 1) // map iteration order is part of the schedule
	res, bmsg := simRun(t, tape, cfg, func(r *sim.Runtime) {
		st = memory.NewStore()
		initial := make([]storage.Graph, len(c.Names))
		for g, name := range c.Names {
			if isAbsent(c, g) {
				continue
			}
			gr, err := st.NewGraph(ctx, name)
			if err != nil {
				panic(err)
			}
			gids[gr] = g
			initial[g] = gr
			var pre []*triple.Triple
			for _, ti := range c.Pre[g] {
				pre = append(pre, uni[ti])
			}
			gr.AddTriples(ctx, pre)
		}
		for ci, ops := range c.Clients {
			ci, ops := ci, ops
			r.Client(fmt.Sprintf("c%d", ci), func() {
				handles := append([]storage.Graph{}, initial...)
				for _, op := range ops {
					sim.Point(-10)
					ev := &concEvent{client: ci, desc: descOp(c, op)}
					name := c.Names[op.G]
					hd := handles[op.G]
					if hd == nil && (op.K == "add" || op.K == "rm" || op.K == "exist" || op.K == "lookup") {
						op.K = "get" // no handle for this name yet: try to obtain one
						ev.desc = descOp(c, op)
					}
					ev.in = linIn{k: op.K, name: op.G}
					if hd != nil {
						ev.in.gid = gids[hd]
					}
					events = append(events, ev)
					ev.call = sim.Stamp()
					switch op.K {
					case "new":
						ev.in.newG = nextG
						nextG++
						g, err := st.NewGraph(ctx, name)
						if err == nil {
							gids[g] = ev.in.newG
							handles[op.G] = g
						}
						ev.out.err = err != nil
						ev.ret = sim.Stamp()
					case "get":
						g, err := st.Graph(ctx, name)
						ev.out.err = err != nil
						if err == nil {
							id, ok := gids[g]
							if !ok {
								id = -2
							}
							ev.out.gid = id
							handles[op.G] = g
						}
						ev.ret = sim.Stamp()
					case "del":
						err := st.DeleteGraph(ctx, name)
						ev.out.err = err != nil
						ev.ret = sim.Stamp()
					case "names":
						ch := make(chan string, c.Cap)
						var got []string
						done := make(chan struct{})
						sim.Go("drain", func() {
							for n := range ch {
								got = append(got, n)
							}
							close(done)
						})
						err := st.GraphNames(ctx, ch)
						ev.ret = sim.Stamp()
						if !closedByCallee(ch) {
							note("channel-not-closed:GraphNames")
						}
						<-done
						ev.out.err = err != nil
						for _, n := range got {
							for i, nm := range c.Names {
								if nm == n {
									if ev.out.names&(1<<uint(i)) != 0 {
										note("graphnames-repeats")
									}
									ev.out.names |= 1 << uint(i)
								}
							}
						}
					case "qinsert", "qdelete":
						var specs []TSpec
						for _, ti := range op.Ts {
							specs = append(specs, c.U[ti])
							ev.in.mask |= 1 << uint(ti)
						}
						stmt := &Stmt{Kind: map[string]string{"qinsert": "insert", "qdelete": "delete"}[op.K], Graphs: []string{name}, Data: specs}
						ev.in.byName = true
						ev.in.k = map[string]string{"qinsert": "add", "qdelete": "rm"}[op.K]
						if c.Focus > 0 {
							sim.PreemptSoon(c.Focus * 4)
						}
						_, err := server.BQL(ctx, stmt.Text(), st, c.Cap, 10)
						ev.out.err = err != nil
						ev.ret = sim.Stamp()
					case "qselect":
						ev.in.byName = true
						ev.in.k = "lookup"
						ev.in.lc = &LookupCall{M: MTriples}
						qctx := ctx
						if op.Done {
							dctx, cancel := context.WithCancel(ctx)
							cancel()
							qctx = dctx
							ev.in.ctxDone = true
						}
						tbl, err := server.BQL(qctx, "SELECT ?s, ?p, ?o FROM "+name+" WHERE { ?s ?p ?o };", st, c.Cap, 10)
						ev.ret = sim.Stamp()
						ev.out.err = err != nil
						if err == nil {
							var ks []string
							for _, row := range tbl.Rows() {
								if row["?s"] == nil || row["?p"] == nil || row["?o"] == nil || row["?s"].N == nil || row["?p"].P == nil {
									note("malformed-row:qselect")
									continue
								}
								ob, e := cellObject(row["?o"])
								if e != nil {
									note("malformed-row:qselect")
									continue
								}
								ks = append(ks, nodeKey(row["?s"].N)+"\t"+predKey(row["?p"].P)+"\t"+objKey(ob))
							}
							ev.out.keys = strings.Join(sortedCopy(ks), "\n")
						}
					case "add":
						if c.Focus > 0 {
							sim.PreemptSoon(c.Focus)
						}
						var batch []*triple.Triple
						for _, ti := range op.Ts {
							batch = append(batch, uni[ti])
							ev.in.mask |= 1 << uint(ti)
						}
						err := hd.AddTriples(ctx, batch)
						ev.out.err = err != nil
						ev.ret = sim.Stamp()
					case "rm":
						if c.Focus > 0 {
							sim.PreemptSoon(c.Focus)
						}
						var batch []*triple.Triple
						for _, ti := range op.Ts {
							batch = append(batch, uni[ti])
							ev.in.mask |= 1 << uint(ti)
						}
						err := hd.RemoveTriples(ctx, batch)
						ev.out.err = err != nil
						ev.ret = sim.Stamp()
					case "exist":
						ev.in.mask = 1 << uint(op.Ts[0])
						b, err := hd.Exist(ctx, uni[op.Ts[0]])
						ev.out.err, ev.out.b = err != nil, b
						ev.ret = sim.Stamp()
					case "lookup":
						lo := storage.DefaultLookup
						if op.Opt >= 0 {
							lo = shared[op.Opt]
							os := c.Opts[op.Opt]
							ev.in.opt = &os
						}
						ev.in.lc = op.L
						lctx := ctx
						if op.Done {
							// a context that is done before the call: the lookup may refuse or answer, but it closes its channel
							dctx, cancel := context.WithCancel(ctx)
							cancel()
							lctx = dctx
							ev.in.ctxDone = true
						}
						var lr *lookupResult
						lr = doLookupR(lctx, hd, *op.L, lo, c.Cap, func() { ev.ret = sim.Stamp() })
						ev.out.err = lr.Err != nil
						if lr.Err != nil && !op.Done && !(ev.in.opt != nil && ev.in.opt.ErrorExpected()) {
							note("lookup-error:" + normMsg(lr.Err.Error()))
						}
						ev.out.keys = strings.Join(sortedCopy(lr.Keys), "\n")
						if !lr.Closed {
							note("channel-not-closed:"+lookupNames[op.L.M])
						}
						if lr.NilEl {
							note("nil-element:"+lookupNames[op.L.M])
						}
					}
					ev.finished = true
				}
			})
		}
	})
	if res == nil {
		return infra("simulation did not produce a result: %s", bmsg)
	}
	o.stat("steps", res.Steps)
	o.stat("decisions", int64(res.Decisions))
	o.stat("switches", int64(res.Switches))
	o.stat("preempts_fired", int64(res.Preempts))
	if res.Hazard != "" {
		return infra("scheduler hazard: %s", res.Hazard)
	}
	o.Det = detHash(res.Log, tape.Rec, renderHistory(events), fmt.Sprint(res.Steps, res.Decisions, res.Preempts, res.Leaked, res.Deadlock))
	c2 := *c
	c2.Tape = tape.Rec
	fail := func(class, f string, a ...any) *Outcome {
		v := violation("C07:"+class, f, a...)
		v.Detail += "\nhistory:\n" + renderHistory(events)
		v.Stats = o.Stats
		v.Sample = nil
		v.Det = o.Det
		return v
	}
	if len(res.Panics) > 0 {
		return fail("panic:"+panicSite(res.Panics[0]), "panic during concurrent use: %s", firstLines(res.Panics[0], 30))
	}
	if res.Invariant != "" {
		return fail("options-modified", "%s", res.Invariant)
	}
	if res.StepCap {
		return fail("no-progress", "step cap reached (%d steps): %s", res.Steps, joinLines(res.Stuck, 8))
	}
	o.stat("lock_discipline_accesses_checked", res.Touches)
	if len(res.Races) > 0 {
		return fail("data-race:lock-discipline", "%s", joinLines(res.Races, 6))
	}
	if res.Deadlock {
		return fail("deadlock", "no runnable task while clients are unfinished:\n%s", joinLines(res.Stuck, 8))
	}
	if len(violations) > 0 {
		sort.Strings(violations)
		return fail(violations[0], "%v", violations)
	}
	if res.Leaked > 0 {
		return fail("goroutine-left", "%d goroutine(s) left after all clients returned:\n%s", res.Leaked, res.LeakDump)
	}
	// quiescent audit: all clients have returned. In every graph each indexed lookup and the existence test agree with
	// the full listing (an index that lost or kept an entry during the concurrent history shows here), and the final
	// listing enters the history as one more read, so that it must be the outcome of some linearization.
	if st != nil {
		byKey := map[string]*triple.Triple{}
		for _, u := range uni {
			byKey[tripleKey(u)] = u
		}
		stamp := int64(1 << 40)
		for g, name := range c.Names {
			gr, err := st.Graph(ctx, name)
			if err != nil {
				continue
			}
			lst := doLookup(ctx, gr, LookupCall{M: MTriples}, storage.DefaultLookup, 64)
			var held []*triple.Triple
			for _, k := range lst.Keys {
				if tr := byKey[k]; tr != nil {
					held = append(held, tr)
				} else {
					return fail("audit:foreign-triple", "graph %s lists %q, which was never added", name, k)
				}
			}
			for ui, u := range c.U {
				for m := 0; m < NumLookups; m++ {
					lc := LookupCall{M: m, S: u[0], P: u[1], O: u[2]}
					got := doLookup(ctx, gr, lc, storage.DefaultLookup, 64)
					if want := refLookupKeys(held, lc, OptSpec{}); got.Err != nil || !equalStrings(sortedCopy(got.Keys), want) {
						return fail("audit:index-inconsistent:"+lookupNames[m], "after all clients returned, in graph %s %s = %q err=%v but a scan of the listing gives %q\nlisting: %q", name, lc.String(), got.Keys, got.Err, want, lst.Keys)
					}
				}
				ex, err := gr.Exist(ctx, uni[ui])
				in := false
				for _, tr := range held {
					in = in || tripleKey(tr) == tripleKey(uni[ui])
				}
				if err != nil || ex != in {
					return fail("audit:exist-inconsistent", "after all clients returned, in graph %s Exist(%s) = %v, %v but the listing says %v\nlisting: %q", name, uni[ui], ex, err, in, lst.Keys)
				}
			}
			ev := &concEvent{client: len(c.Clients), desc: "audit: final listing of " + name, call: stamp, ret: stamp + 1, finished: true}
			stamp += 2
			ev.in = linIn{k: "lookup", name: g, byName: true, lc: &LookupCall{M: MTriples}}
			ev.out.keys = strings.Join(sortedCopy(lst.Keys), "\n")
			events = append(events, ev)
			o.stat("audit_lookups", int64(len(c.U)*(NumLookups+1)+1))
		}
	}
	// linearizability
	var ops []porcupine.Operation
	for _, ev := range events {
		if !ev.finished {
			return fail("deadlock", "operation did not finish: %s", ev.desc)
		}
		in := ev.in
		if ev.in.k == "lookup" && ev.in.opt != nil && ev.in.opt.ErrorExpected() {
			in.anyResult = true
		}
		if ev.in.k == "lookup" && ev.in.ctxDone && ev.out.err {
			in.anyResult = true // refused because of the done context: only closure is judged
		}
		if in.k == "rm" {
			for b := 0; b < len(uni); b++ {
				if in.mask&(1<<uint(b)) != 0 {
					i1 := in
					i1.k, i1.mask = "rm1", 1<<uint(b)
					ops = append(ops, porcupine.Operation{ClientId: ev.client, Input: i1, Output: ev.out, Call: ev.call, Return: ev.ret})
				}
			}
			continue
		}
		ops = append(ops, porcupine.Operation{ClientId: ev.client, Input: in, Output: ev.out, Call: ev.call, Return: ev.ret})
	}
	// porcupine wants distinct client ids for overlapping operations: the
	// single-triple removals of one call share an interval, give each its own id.
	for i := range ops {
		if ops[i].Input.(linIn).k == "rm1" {
			ops[i].ClientId = 100 + i
		}
	}
	switch porcupine.CheckOperationsTimeout(h.model(c, uni), ops, 10*time.Second) {
	case porcupine.Illegal:
		return fail(classifyIllegal(c, events), "the recorded history has no linearization consistent with real time")
	case porcupine.Unknown:
		o.stat("inconclusive", 1)
	}
	// non-trivial: a real choice was made and >= 2 clients touched the same graph
	touched := map[int]map[int]bool{}
	writes := false
	for _, ev := range events {
		if touched[ev.in.name] == nil {
			touched[ev.in.name] = map[int]bool{}
		}
		touched[ev.in.name][ev.client] = true
		if ev.in.k == "add" || ev.in.k == "rm" {
			writes = true
		}
	}
	shared2 := false
	for _, m := range touched {
		if len(m) >= 2 {
			shared2 = true
		}
	}
	// reach probes: which kinds of overlap did this run actually produce
	for i, a := range events {
		for _, b := range events[i+1:] {
			if a.client == b.client || a.in.name != b.in.name || !(a.call < b.ret && b.call < a.ret) {
				continue
			}
			aw, bw := a.in.k == "add" || a.in.k == "rm", b.in.k == "add" || b.in.k == "rm"
			switch {
			case aw && bw:
				o.stat("probe_two_writes_overlap_on_one_graph", 1)
			case aw != bw && (a.in.k == "lookup" || b.in.k == "lookup"):
				o.stat("probe_lookup_overlaps_write_on_one_graph", 1)
			case aw != bw:
				o.stat("probe_read_overlaps_write_on_one_graph", 1)
			case (a.in.k == "new" || a.in.k == "del") && (b.in.k == "new" || b.in.k == "del"):
				o.stat("probe_graph_create_drop_overlap_on_one_name", 1)
			}
		}
	}
	if res.LockWaits > 0 {
		o.stat("probe_lock_waits", int64(res.LockWaits))
	}
	o.NonTrivial = res.Decisions > 0 && shared2 && writes
	o.Hash = hashStr(fmt.Sprintf("%s|%x", renderHistory(events), res.SchedHash))
	if o.NonTrivial {
		o.stat("distinct_schedules_hint", 1)
	}
	o.Sample = map[string]any{"history": strings.Split(renderHistory(events), "\n"), "steps": res.Steps, "decisions": res.Decisions, "preempts": res.Preempts, "case": c2}
	return o
}

func cellObject(c *table.Cell) (*triple.Object, error) {
	switch {
	case c.N != nil:
		return triple.NewNodeObject(c.N), nil
	case c.P != nil:
		return triple.NewPredicateObject(c.P), nil
	case c.L != nil:
		return triple.NewLiteralObject(c.L), nil
	}
	return nil, fmt.Errorf("cell holds no object")
}

func isAbsent(c *ConcCase, g int) bool {
	for _, a := range c.Absent {
		if a == g {
			return true
		}
	}
	return false
}

func descOp(c *ConcCase, op ConcOp) string {
	s := op.K + " " + c.Names[op.G]
	for _, t := range op.Ts {
		s += fmt.Sprintf(" #%d", t)
	}
	if op.L != nil {
		s += " " + op.L.String()
		if op.Opt >= 0 {
			s += " opts#" + fmt.Sprint(op.Opt) + jsonStr(c.Opts[op.Opt])
		}
	}
	return s
}

func renderHistory(evs []*concEvent) string {
	var ls []string
	for _, e := range evs {
		out := fmt.Sprintf("err=%v", e.out.err)
		switch e.in.k {
		case "exist":
			out += fmt.Sprintf(" %v", e.out.b)
		case "lookup":
			out += fmt.Sprintf(" %q", strings.Split(e.out.keys, "\n"))
		case "names":
			out += fmt.Sprintf(" names=%b", e.out.names)
		case "get":
			out += fmt.Sprintf(" graph#%d", e.out.gid)
		}
		ls = append(ls, fmt.Sprintf("c%d [%d,%d] %s (graph#%d) -> %s", e.client, e.call, e.ret, e.desc, e.in.gid, out))
	}
	return strings.Join(ls, "\n")
}

// classifyIllegal names a non-linearizable history.
func classifyIllegal(c *ConcCase, evs []*concEvent) string {
	return "not-linearizable"
}

// normMsg shortens an error text to a stable head (no values).
func normMsg(m string) string {
	m = strings.Map(func(r rune) rune {
		if r == ' ' {
			return '_'
		}
		if r >= '0' && r <= '9' {
			return -1
		}
		return r
	}, m)
	if len(m) > 60 {
		m = m[:60]
	}
	return m
}
