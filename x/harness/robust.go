package harness

import (
	"encoding/json"
	"fmt"
	"regexp"
	"strings"
	"testing"

	"github.com/google/badwolf/bql/grammar"
	"github.com/google/badwolf/bql/lexer"
	"github.com/google/badwolf/bql/semantic"
)

// C08: any statement text yields a table or an error - no crash, hang or leak.
// The exact server.BQL pipeline runs as a client of a simulated run over the
// fault-free simulated driver: every goroutine the engine starts (fetch
// producers and consumers, fan-out workers, writers, the lexer) must finish,
// nothing may panic, the call must return.

func init() { register("C08", func() Harness { return &robustHarness{} }) }

type RobustCase struct {
	Graphs []GraphData `json:"graphs"`
	Text   string      `json:"text"`
	Origin string      `json:"origin"` // how the text was produced
	Knobs  ExecKnobs   `json:"knobs"`
	Cancel *FaultSpec  `json:"cancel,omitempty"` // the caller's context is cancelled while this driver call is in flight - or (mode slow / slowmid) the call takes simulated seconds
}

type robustHarness struct{}

func (h *robustHarness) Decode(b []byte) (any, error) {
	c := &RobustCase{}
	return c, json.Unmarshal(b, c)
}

// ---- grammar driven sentences ----------------------------------------------

var tokenText = map[lexer.TokenType][]string{
	lexer.ItemQuery: {"SELECT"}, lexer.ItemInsert: {"INSERT"}, lexer.ItemDelete: {"DELETE"}, lexer.ItemCreate: {"CREATE"},
	lexer.ItemConstruct: {"CONSTRUCT"}, lexer.ItemDeconstruct: {"DECONSTRUCT"}, lexer.ItemDrop: {"DROP"}, lexer.ItemGraph: {"GRAPH"},
	lexer.ItemData: {"DATA"}, lexer.ItemInto: {"INTO"}, lexer.ItemFrom: {"FROM"}, lexer.ItemWhere: {"WHERE"}, lexer.ItemAs: {"AS"},
	lexer.ItemType: {"TYPE"}, lexer.ItemID: {"ID"}, lexer.ItemAt: {"AT"}, lexer.ItemIn: {"IN"}, lexer.ItemBefore: {"BEFORE"},
	lexer.ItemAfter: {"AFTER"}, lexer.ItemBetween: {"BETWEEN"}, lexer.ItemCount: {"COUNT"}, lexer.ItemDistinct: {"DISTINCT"},
	lexer.ItemSum: {"SUM"}, lexer.ItemGroup: {"GROUP"}, lexer.ItemBy: {"BY"}, lexer.ItemOrder: {"ORDER"}, lexer.ItemHaving: {"HAVING"},
	lexer.ItemAsc: {"ASC"}, lexer.ItemDesc: {"DESC"}, lexer.ItemLimit: {"LIMIT"},
	lexer.ItemLBracket: {"{"}, lexer.ItemRBracket: {"}"}, lexer.ItemLPar: {"("}, lexer.ItemRPar: {")"}, lexer.ItemDot: {"."},
	lexer.ItemSemicolon: {";"}, lexer.ItemComma: {","}, lexer.ItemLT: {"<"}, lexer.ItemGT: {">"}, lexer.ItemEQ: {"="},
	lexer.ItemNot: {"NOT"}, lexer.ItemAnd: {"AND"}, lexer.ItemOr: {"OR"}, lexer.ItemShow: {"SHOW"}, lexer.ItemGraphs: {"GRAPHS"},
	lexer.ItemOptional: {"OPTIONAL"}, lexer.ItemFilter: {"FILTER"}, lexer.ItemFilterFunction: {"latest", "isTemporal", "isImmutable", "LATEST"},
	lexer.ItemBinding:   {"?g0", "?g1", "?b1", "?b2", "?b3", "?b4", "?a1", "?missing"},
	lexer.ItemBlankNode: {"_:v0", "_:v1"},
	lexer.ItemTime:      {"2006-01-02T15:04:05Z", "2010-06-01T00:00:00.0000005Z", "2016-02-29T23:59:59.999999999+02:00"},
}

func tokenSample(r *Rand, tt lexer.TokenType, prevBetween bool) string {
	switch tt {
	case lexer.ItemNode:
		return V.Nodes[r.Intn(V.NodesClean)].String()
	case lexer.ItemPredicate:
		switch r.Intn(6) {
		case 0:
			return `"p"@[?b2]`
		case 1:
			return `"q"@[?b4]`
		}
		return V.Preds[r.Intn(V.PredsClean)].String()
	case lexer.ItemPredicateBound:
		if prevBetween {
			return "2006-01-02T15:04:05Z, 2016-02-29T23:59:59.999999999Z"
		}
		return []string{`"p"@[,]`, `"p"@[2006-01-02T15:04:05Z,]`, `"q"@[,2016-02-29T23:59:59.999999999Z]`, `"p"@[2006-01-02T15:04:05Z,2010-06-01T00:00:00.0000005Z]`, `"p"@[?b1,?b2]`}[r.Intn(5)]
	case lexer.ItemLiteral:
		switch r.Intn(12) {
		case 0:
			return `"-1"^^type:int64`
		case 1:
			return `"1.5"^^type:int64`
		case 2:
			return `"9223372036854775807"^^type:int64`
		case 3:
			return `"x"^^type:foo`
		case 4:
			return `"3"^^type:int64`
		case 5:
			return `"0"^^type:int64`
		case 6:
			return `"2.5"^^type:float64`
		}
		for {
			o := V.Objs[r.Intn(V.ObjsClean)]
			if _, err := o.Literal(); err == nil {
				return o.String()
			}
		}
	}
	if ts := tokenText[tt]; len(ts) > 0 {
		t := ts[r.Intn(len(ts))]
		if r.Chance(0.3) {
			t = strings.ToLower(t)
		}
		return t
	}
	return "?"
}

var bqlGrammar = grammar.BQL()

// derive produces the token texts of a random sentence of the grammar.
func derive(r *Rand, sym semantic.Symbol, depth int, out *[]string, types *[]lexer.TokenType) {
	clauses := (*bqlGrammar)[sym]
	if len(clauses) == 0 {
		return
	}
	var cl *grammar.Clause
	if depth > 7 {
		// prefer the shortest alternative to terminate
		cl = clauses[0]
		for _, c := range clauses {
			if len(c.Elements) < len(cl.Elements) {
				cl = c
			}
		}
	} else {
		cl = clauses[r.Intn(len(clauses))]
		if len(cl.Elements) == 0 && r.Chance(0.5) {
			cl = clauses[r.Intn(len(clauses))]
		}
	}
	for _, e := range cl.Elements {
		if e.Symbol() != "" {
			derive(r, e.Symbol(), depth+1, out, types)
			continue
		}
		prevBetween := len(*types) > 0 && (*types)[len(*types)-1] == lexer.ItemBetween
		*out = append(*out, tokenSample(r, e.Token(), prevBetween))
		*types = append(*types, e.Token())
	}
}

var tokSplit = regexp.MustCompile(`\s+`)

// mutate damages a token sequence the way an aborted or mangled request would.
func mutate(r *Rand, toks []string) ([]string, string) {
	if len(toks) == 0 {
		return toks, "none"
	}
	cp := append([]string{}, toks...)
	i := r.Intn(len(cp))
	switch r.Intn(9) {
	case 0:
		return cp[:i], "truncate"
	case 1:
		return append(cp[:i], cp[i+1:]...), "delete-token"
	case 2:
		return append(cp[:i+1], cp[i:]...), "duplicate-token"
	case 3:
		j := r.Intn(len(cp))
		cp[i], cp[j] = cp[j], cp[i]
		return cp, "swap-tokens"
	case 4:
		t := cp[i]
		if len(t) > 1 {
			k := 1 + r.Intn(len(t)-1)
			cp[i] = t[:k] + []string{`"`, `@[`, `]`, `<`, `>`, `^^type:`, `\`, `?`, `_:`, `/`, "\n"}[r.Intn(11)] + t[k:]
		}
		return cp, "inject-delimiter"
	case 5:
		t := cp[i]
		if len(t) > 1 {
			cp[i] = t[:r.Intn(len(t))]
		}
		return cp, "cut-token"
	case 6:
		// early error followed by a long tail: the lexer still has many tokens to deliver
		tail := []string{}
		for k := 0; k < 8+r.Intn(30); k++ {
			tail = append(tail, toks[r.Intn(len(toks))])
		}
		return append(append(cp[:i], "}}"), tail...), "early-error-long-tail"
	case 7:
		return append(cp, toks[r.Intn(len(toks))], ";"), "trailing-tokens"
	default:
		keys := []lexer.TokenType{lexer.ItemQuery, lexer.ItemFrom, lexer.ItemWhere, lexer.ItemLBracket, lexer.ItemRBracket, lexer.ItemDot, lexer.ItemSemicolon, lexer.ItemBinding, lexer.ItemNode, lexer.ItemLiteral, lexer.ItemPredicate, lexer.ItemLimit, lexer.ItemHaving, lexer.ItemGroup, lexer.ItemBy}
		cp[i] = tokenSample(r, keys[r.Intn(len(keys))], false)
		return cp, "replace-token"
	}
}

func (h *robustHarness) Gen(r *Rand, tier string, clean bool) any {
	u := genUniverse(r, r.Range(3, 9), r.Chance(0.3), false)
	c := &RobustCase{Knobs: genKnobs(r)}
	c.Knobs.Memo = r.Chance(0.2)
	if r.Chance(0.15) {
		// the client goes away while the statement runs: the caller's context is cancelled during driver call k
		c.Cancel = &FaultSpec{Call: r.Intn(8), Mode: "cancel", J: r.Intn(3)}
	}
	if c.Cancel == nil && r.Chance(0.12) {
		// a driver call that is slow (simulated seconds), not failing: the statement simply takes longer
		c.Cancel = &FaultSpec{Call: r.Intn(8), Mode: []string{"slow", "slowmid"}[r.Intn(2)], J: r.Intn(6)}
		if r.Bool() {
			c.Cancel.Mode, c.Cancel.W = "slow", 1+r.Intn(3) // one of the first writes of the statement is the slow call
		}
	}
	if r.Chance(0.2) {
		c.Graphs = []GraphData{{Name: "?g0"}, {Name: "?g1"}} // empty store content
	} else {
		c.Graphs = genGraphs(r, u, 2)
		if len(c.Graphs) == 1 {
			c.Graphs = append(c.Graphs, GraphData{Name: "?g1"})
		}
	}
	var toks []string
	switch x := r.Intn(100); {
	case x < 45:
		o := sopts{qopts: qopts{clean: false, maxClauses: 3, optional: 0.3, aliases: 0.35, bounds: 0.6, crossKind: 0.15}, group: 0.35, order: 0.3, limit: 0.3, global: 0.2, missing: 0.05}
		st := genStmt(r, u, graphNames(c.Graphs), o, []int{50, 8, 8, 4, 4, 12, 10, 4})
		if st.Kind == "select" && r.Chance(0.15) {
			st.Q.Limit = []string{`"-1"^^type:int64`, `"1.5"^^type:float64`, `"9223372036854775807"^^type:int64`, `"2"^^type:text`, `"0"^^type:int64`}[r.Intn(5)]
		}
		c.Text, c.Origin = st.Text(), "structured:"+st.Kind
		toks = tokSplit.Split(c.Text, -1)
	case x < 92:
		var types []lexer.TokenType
		derive(r, "START", 0, &toks, &types)
		c.Text, c.Origin = strings.Join(toks, " "), "grammar"
	default:
		n := r.Range(1, 40)
		b := make([]byte, n)
		alphabet := "?/<>\"@[]{}().;,^:_\\ \n\tabpqselctfromwh0123456789=-"
		for i := range b {
			if r.Chance(0.1) {
				b[i] = byte(r.Intn(256))
			} else {
				b[i] = alphabet[r.Intn(len(alphabet))]
			}
		}
		c.Text, c.Origin = string(b), "random-bytes"
		return c
	}
	if r.Chance(0.5) {
		var how string
		toks, how = mutate(r, toks)
		if r.Chance(0.2) {
			var how2 string
			toks, how2 = mutate(r, toks)
			how += "+" + how2
		}
		c.Text = strings.Join(toks, " ")
		c.Origin += "|" + how
	}
	return c
}

func (h *robustHarness) Shrink(ci any) []any {
	c := ci.(*RobustCase)
	var out []any
	toks := tokSplit.Split(c.Text, -1)
	for chunk := len(toks) / 2; chunk >= 1; chunk /= 2 {
		for i := 0; i+chunk <= len(toks); i += chunk {
			d := *c
			d.Text = strings.Join(append(append([]string{}, toks[:i]...), toks[i+chunk:]...), " ")
			out = append(out, &d)
		}
	}
	for g := range c.Graphs {
		if len(c.Graphs[g].Ts) > 0 {
			d := *c
			d.Graphs = append([]GraphData{}, c.Graphs...)
			d.Graphs[g].Ts = c.Graphs[g].Ts[:len(c.Graphs[g].Ts)/2]
			out = append(out, &d)
		}
	}
	if c.Knobs.Memo || c.Knobs.Pace != 0 || c.Knobs.Preempt != 0 || c.Knobs.Permute {
		d := *c
		d.Knobs.Memo, d.Knobs.Pace, d.Knobs.Preempt, d.Knobs.Permute = false, 0, 0, false
		out = append(out, &d)
	}
	if c.Cancel != nil {
		d := *c
		d.Cancel = nil
		out = append(out, &d)
	}
	if c.Knobs.CtxAware {
		d := *c
		d.Knobs.CtxAware = false
		out = append(out, &d)
	}
	return out
}

func (h *robustHarness) Run(t *testing.T, ci any) *Outcome {
	c := ci.(*RobustCase)
	o := okOutcome()
	var faults []FaultSpec
	if c.Cancel != nil {
		faults = []FaultSpec{*c.Cancel}
	}
	er := execStatement(t, c.Graphs, c.Text, c.Knobs, faults, nil)
	if er.res == nil {
		return infra("no result: %s", er.bubble)
	}
	for k, n := range er.fired {
		o.stat("fault_"+k, int64(n))
	}
	for k, n := range er.probes {
		o.stat("probe_"+k, int64(n))
	}
	if er.res.Hazard != "" {
		return infra("scheduler hazard: %s", er.res.Hazard)
	}
	o.stat("steps", er.res.Steps)
	o.Det = detHash(er.res.Log, er.tapeRec, traceSig(er.trace, 1<<30), fmt.Sprint(er.err))
	mk := func(cls, f string, a ...any) *Outcome {
		v := violation("C08:"+cls, f, a...)
		v.Detail = fmt.Sprintf("statement (%s): %q\n%s", c.Origin, c.Text, v.Detail)
		v.Stats, v.Det = o.Stats, o.Det
		return v
	}
	switch {
	case er.panicV != "":
		return mk("panic:"+panicSite(er.panicV), "panic in the calling goroutine: %s", firstLines(er.panicV, 30))
	case len(er.res.Panics) > 0:
		return mk("panic-in-engine-goroutine:"+panicSite(er.res.Panics[0]), "panic in a goroutine the engine started (this kills the process): %s", firstLines(er.res.Panics[0], 30))
	case er.res.StepCap:
		return mk("no-progress", "step cap reached after %d steps: %s", er.res.Steps, joinLines(er.res.Stuck, 8))
	case !er.done || er.res.Deadlock:
		return mk("hang", "the call did not return: no runnable task left\n%s\n%s", joinLines(er.res.Stuck, 8), er.res.LeakDump)
	case er.inflightAtReturn > 0:
		return mk("driver-call-outlives-statement", "the call returned while %d storage driver call(s) it had started were still in flight", er.inflightAtReturn)
	case er.res.Leaked > 0:
		return mk("goroutine-left:"+leakSite(er.res.LeakDump), "%d goroutine(s) started for the call are still there after it returned:\n%s", er.res.Leaked, er.res.LeakDump)
	case er.bubble != "":
		return mk("goroutine-left:bubble-end", "%s", er.bubble)
	case er.err == nil && er.tbl == nil:
		return mk("nil-table-nil-error", "returned (nil, nil)")
	}
	if er.err == nil {
		o.stat("accepted", 1)
		o.stat("rows", int64(er.tbl.NumRows()))
	} else {
		o.stat("rejected", 1)
	}
	o.stat("origin_"+strings.SplitN(c.Origin, "|", 2)[0], 1)
	o.NonTrivial = true
	o.Hash = hashStr(c.Text + jsonStr(c.Graphs))
	o.Sample = map[string]any{"text": c.Text, "origin": c.Origin, "error": fmt.Sprint(er.err), "driver_calls": len(er.trace)}
	return o
}

// leakSite names the function a leaked goroutine is blocked in.
func leakSite(dump string) string {
	for _, ln := range strings.Split(dump, "\n") {
		if i := strings.Index(ln, "github.com/google/badwolf/"); i >= 0 && !strings.Contains(ln, "/xverif/") && !strings.HasPrefix(strings.TrimSpace(ln), "/") && !strings.HasPrefix(ln, "created by") {
			f := ln[i+len("github.com/google/badwolf/"):]
			if j := strings.LastIndex(f, "("); j > 0 {
				f = f[:j]
			}
			return f
		}
	}
	return "?"
}
