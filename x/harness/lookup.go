package harness

import (
	"context"
	"fmt"
	"math"
	"regexp"
	"sort"
	"strconv"
	"strings"
	"time"

	"github.com/google/badwolf/bql/planner/filter"
	"github.com/google/badwolf/storage"
	"github.com/google/badwolf/triple"
	"github.com/google/badwolf/triple/node"
	"github.com/google/badwolf/triple/predicate"
	"github.com/google/badwolf/xverif/sim"
)

// The eleven read methods of storage.Graph.
const (
	MObjects = iota
	MSubjects
	MPredsS
	MPredsO
	MPredsSO
	MTriplesS
	MTriplesP
	MTriplesO
	MTriplesSP
	MTriplesPO
	MTriples
	NumLookups
)

var lookupNames = []string{"Objects", "Subjects", "PredicatesForSubject", "PredicatesForObject", "PredicatesForSubjectAndObject",
	"TriplesForSubject", "TriplesForPredicate", "TriplesForObject", "TriplesForSubjectAndPredicate", "TriplesForPredicateAndObject", "Triples"}

// which components a method fixes
var usesS = []bool{true, false, true, false, true, true, false, false, true, false, false}
var usesP = []bool{true, true, false, false, false, false, true, false, true, true, false}
var usesO = []bool{false, true, false, true, true, false, false, true, false, true, false}

// LookupCall names a lookup by method and vocabulary indices.
type LookupCall struct {
	M int `json:"m"`
	S int `json:"s"`
	P int `json:"p"`
	O int `json:"o"`
}

func (lc LookupCall) String() string {
	s := lookupNames[lc.M] + "("
	if usesS[lc.M] {
		s += V.Nodes[lc.S].String() + " "
	}
	if usesP[lc.M] {
		s += V.Preds[lc.P].String() + " "
	}
	if usesO[lc.M] {
		s += V.Objs[lc.O].String()
	}
	return s + ")"
}

// OptSpec is a JSON-able description of storage.LookupOptions.
type OptSpec struct {
	Max    int    `json:"max,omitempty"`
	Off    int    `json:"off,omitempty"`
	Lo     *int64 `json:"lo,omitempty"` // unix nanos
	Hi     *int64 `json:"hi,omitempty"`
	Latest bool   `json:"latest,omitempty"`
	FOp    string `json:"fop,omitempty"` // latest | isImmutable | isTemporal
	FField string `json:"ffield,omitempty"`
}

// ErrorExpected: option values every driver lookup has to reject (the result
// is not judged, the call must still close its channel and leave no trace).
func (o OptSpec) ErrorExpected() bool {
	return (o.Latest && o.FOp != "") || o.FField == "subject"
}

func (o OptSpec) Build() *storage.LookupOptions {
	lo := &storage.LookupOptions{MaxElements: o.Max, Offset: o.Off, LatestAnchor: o.Latest}
	if o.Lo != nil {
		t := time.Unix(0, *o.Lo).UTC()
		lo.LowerAnchor = &t
	}
	if o.Hi != nil {
		t := time.Unix(0, *o.Hi).UTC()
		lo.UpperAnchor = &t
	}
	if o.FOp != "" {
		lo.FilterOptions = &filter.StorageOptions{Operation: filterOp(o.FOp), Field: filterField(o.FField)}
	}
	return lo
}

func filterOp(s string) filter.Operation {
	switch s {
	case "latest":
		return filter.Latest
	case "isImmutable":
		return filter.IsImmutable
	case "isTemporal":
		return filter.IsTemporal
	}
	panic("bad filter op " + s)
}

func filterField(s string) filter.Field {
	switch s {
	case "predicate":
		return filter.PredicateField
	case "object":
		return filter.ObjectField
	case "subject":
		return filter.SubjectField // not accepted by any filter function: the lookup must fail cleanly
	}
	panic("bad filter field " + s)
}

// optsSnapshot renders every field of the options value, pointer targets
// included, so that "the lookup did not modify its options" can be checked.
func optsSnapshot(lo *storage.LookupOptions) string {
	s := fmt.Sprintf("max=%d off=%d latest=%v", lo.MaxElements, lo.Offset, lo.LatestAnchor)
	if lo.LowerAnchor != nil {
		s += fmt.Sprintf(" lo=%p/%d", lo.LowerAnchor, lo.LowerAnchor.UnixNano())
	}
	if lo.UpperAnchor != nil {
		s += fmt.Sprintf(" hi=%p/%d", lo.UpperAnchor, lo.UpperAnchor.UnixNano())
	}
	if lo.FilterOptions != nil {
		s += fmt.Sprintf(" f=%p/%v", lo.FilterOptions, *lo.FilterOptions)
	} else {
		s += " f=nil"
	}
	return s
}

// lookupResult is what one lookup delivered.
type lookupResult struct {
	Keys   []string // structural keys of the delivered elements, in delivery order
	Err    error
	Closed bool // the channel had been closed by the callee when it returned
	NilEl  bool // a nil element was delivered
}

// closedByCallee closes ch and reports whether it had already been closed (the
// close then panics). A channel the callee forgot to close is closed here so
// that the drainer always terminates.
func closedByCallee[T any](ch chan T) (was bool) {
	defer func() {
		if recover() != nil {
			was = true
		}
	}()
	close(ch)
	return false
}

// drainPause: set by a harness for the duration of a case to make the consumers of lookup results slow (simulated time).
var drainPause time.Duration

// drainCancel: when set, the consumer calls it once it has received drainCancelAfter elements (a caller that gives up in
// the middle of a stream); drainCancelled reports that it happened.
var (
	drainCancel      func()
	drainCancelAfter int
	drainCancelled   bool
)

// drainPausePlain: the pause also applies outside the scheduler (a harness that runs its sequential history in a plain
// synctest bubble).
var drainPausePlain bool

func runLookup[T any](capacity int, onReturn func(), key func(T) string, isNil func(T) bool, call func(ch chan T) error) *lookupResult {
	res := &lookupResult{}
	done := make(chan struct{})
	ch := make(chan T, capacity)
	drain := func() {
		n := 0
		for x := range ch {
			if drainPause > 0 && n < 2 && (sim.Active() || drainPausePlain) {
				time.Sleep(drainPause) // a consumer that is slow in simulated time (the lookup holds its read lock meanwhile)
			}
			n++
			if drainCancel != nil && n == drainCancelAfter {
				drainCancelled = true
				drainCancel()
			}
			if isNil(x) {
				res.NilEl = true
				continue
			}
			res.Keys = append(res.Keys, key(x))
		}
		close(done)
	}
	if sim.Active() {
		sim.Go("drain", drain)
	} else {
		go drain()
	}
	res.Err = call(ch)
	if onReturn != nil {
		onReturn() // the caller holds the baton here: the callee has just returned
	}
	res.Closed = closedByCallee(ch)
	<-done
	return res
}

// doLookup calls a read method with a channel of the given capacity and drains
// it concurrently. Under simulation the drainer is a scheduled task.
func doLookup(ctx context.Context, g storage.Graph, lc LookupCall, lo *storage.LookupOptions, capacity int) *lookupResult {
	return doLookupR(ctx, g, lc, lo, capacity, nil)
}

// doLookupR additionally calls onReturn at the moment the callee returns.
func doLookupR(ctx context.Context, g storage.Graph, lc LookupCall, lo *storage.LookupOptions, capacity int, onReturn func()) *lookupResult {
	s, p, o := V.Nodes[lc.S], V.Preds[lc.P], V.Objs[lc.O]
	switch lc.M {
	case MObjects:
		return runLookup(capacity, onReturn, objKey, func(x *triple.Object) bool { return x == nil }, func(ch chan *triple.Object) error {
			return g.Objects(ctx, s, p, lo, ch)
		})
	case MSubjects:
		return runLookup(capacity, onReturn, nodeKey, func(x *node.Node) bool { return x == nil }, func(ch chan *node.Node) error {
			return g.Subjects(ctx, p, o, lo, ch)
		})
	case MPredsS, MPredsO, MPredsSO:
		return runLookup(capacity, onReturn, predKey, func(x *predicate.Predicate) bool { return x == nil }, func(ch chan *predicate.Predicate) error {
			switch lc.M {
			case MPredsS:
				return g.PredicatesForSubject(ctx, s, lo, ch)
			case MPredsO:
				return g.PredicatesForObject(ctx, o, lo, ch)
			}
			return g.PredicatesForSubjectAndObject(ctx, s, o, lo, ch)
		})
	}
	return runLookup(capacity, onReturn, tripleKey, func(x *triple.Triple) bool { return x == nil }, func(ch chan *triple.Triple) error {
		switch lc.M {
		case MTriplesS:
			return g.TriplesForSubject(ctx, s, lo, ch)
		case MTriplesP:
			return g.TriplesForPredicate(ctx, p, lo, ch)
		case MTriplesO:
			return g.TriplesForObject(ctx, o, lo, ch)
		case MTriplesSP:
			return g.TriplesForSubjectAndPredicate(ctx, s, p, lo, ch)
		case MTriplesPO:
			return g.TriplesForPredicateAndObject(ctx, p, o, lo, ch)
		}
		return g.Triples(ctx, lo, ch)
	})
}

// ---------------------------------------------------------------------------
// Reference semantics of a lookup, written from the property statements
// (C02, C09), as a filter over the full set of stored triples.

// refMatches: the fixed components of lc equal those of t. A predicate matches
// when identifier, kind and (if temporal) instant agree.
func refMatches(t *triple.Triple, lc LookupCall) bool {
	if usesS[lc.M] && nodeKey(t.Subject()) != nodeKey(V.Nodes[lc.S]) {
		return false
	}
	if usesP[lc.M] && predKey(t.Predicate()) != predKey(V.Preds[lc.P]) {
		return false
	}
	if usesO[lc.M] && objKey(t.Object()) != objKey(V.Objs[lc.O]) {
		return false
	}
	return true
}

func project(t *triple.Triple, m int) string {
	switch m {
	case MObjects:
		return objKey(t.Object())
	case MSubjects:
		return nodeKey(t.Subject())
	case MPredsS, MPredsO, MPredsSO:
		return predKey(t.Predicate())
	}
	return tripleKey(t)
}

// fieldPred returns the predicate a filter function looks at.
func fieldPred(t *triple.Triple, field string) *predicate.Predicate {
	if field == "predicate" {
		return t.Predicate()
	}
	if p, err := t.Object().Predicate(); err == nil {
		return p
	}
	return nil
}

// refSelect applies window, then filter function, to the candidates; paging is
// judged separately. It returns the selected triples.
func refSelect(set []*triple.Triple, lc LookupCall, o OptSpec) []*triple.Triple {
	var cand []*triple.Triple
	for _, t := range set {
		if !refMatches(t, lc) {
			continue
		}
		// window: closed interval on temporal triples, immutable always kept
		if t.Predicate().Type() == predicate.Temporal {
			ta, _ := t.Predicate().TimeAnchor()
			if o.Lo != nil && ta.Before(time.Unix(0, *o.Lo)) {
				continue
			}
			if o.Hi != nil && ta.After(time.Unix(0, *o.Hi)) {
				continue
			}
		}
		cand = append(cand, t)
	}
	fop, ffield := o.FOp, o.FField
	if o.Latest {
		fop, ffield = "latest", "predicate"
	}
	switch fop {
	case "":
		return cand
	case "isImmutable", "isTemporal":
		want := predicate.Immutable
		if fop == "isTemporal" {
			want = predicate.Temporal
		}
		var out []*triple.Triple
		for _, t := range cand {
			if p := fieldPred(t, ffield); p != nil && p.Type() == want {
				out = append(out, t)
			}
		}
		return out
	case "latest":
		best := map[string]time.Time{}
		for _, t := range cand {
			if p := fieldPred(t, ffield); p != nil && p.Type() == predicate.Temporal {
				ta, _ := p.TimeAnchor()
				if b, ok := best[string(p.ID())]; !ok || ta.After(b) {
					best[string(p.ID())] = *ta
				}
			}
		}
		var out []*triple.Triple
		for _, t := range cand {
			if p := fieldPred(t, ffield); p != nil && p.Type() == predicate.Temporal {
				ta, _ := p.TimeAnchor()
				if ta.Equal(best[string(p.ID())]) {
					out = append(out, t)
				}
			}
		}
		return out
	}
	panic("bad filter")
}

func refLookupKeys(set []*triple.Triple, lc LookupCall, o OptSpec) []string {
	var ks []string
	for _, t := range refSelect(set, lc, o) {
		ks = append(ks, project(t, lc.M))
	}
	sort.Strings(ks)
	return ks
}

func sortedCopy(a []string) []string {
	b := append([]string(nil), a...)
	sort.Strings(b)
	return b
}

func equalStrings(a, b []string) bool {
	if len(a) != len(b) {
		return false
	}
	for i := range a {
		if a[i] != b[i] && !sameUpToFloatSums(a[i], b[i]) {
			return false
		}
	}
	return true
}

// Float sums (rendered "L|float64~<13 significant digits>" by rowKey) are equal when they agree to a relative 1e-11:
// float addition is not associative and the engine may add a group's values in any order, so two correct sums can
// land on different sides of any rounding boundary. (Found by a soak: 2.5 + 2.5000001 + 2.50000005 + ... rendered
// with 9 digits came out as ...04 and ...05.)
var floatSumRe = regexp.MustCompile(`L\|float64~([-+0-9.eE]+)`)

func sameUpToFloatSums(x, y string) bool {
	if !strings.Contains(x, "L|float64~") || floatSumRe.ReplaceAllString(x, "F") != floatSumRe.ReplaceAllString(y, "F") {
		return false
	}
	fx, fy := floatSumRe.FindAllStringSubmatch(x, -1), floatSumRe.FindAllStringSubmatch(y, -1)
	if len(fx) != len(fy) {
		return false
	}
	for i := range fx {
		a, err1 := strconv.ParseFloat(fx[i][1], 64)
		b, err2 := strconv.ParseFloat(fy[i][1], 64)
		if err1 != nil || err2 != nil || math.Abs(a-b) > 1e-11*math.Max(1, math.Max(math.Abs(a), math.Abs(b))) {
			return false
		}
	}
	return true
}

// multisetDiff returns elements (with multiplicity) in a not in b and vice versa.
func multisetDiff(a, b []string) (onlyA, onlyB []string) {
	m := map[string]int{}
	for _, x := range a {
		m[x]++
	}
	for _, x := range b {
		m[x]--
	}
	var ks []string
	for k := range m {
		ks = append(ks, k)
	}
	sort.Strings(ks)
	for _, k := range ks {
		for i := 0; i < m[k]; i++ {
			onlyA = append(onlyA, k)
		}
		for i := 0; i < -m[k]; i++ {
			onlyB = append(onlyB, k)
		}
	}
	return
}
