package harness

import (
	"time"
	"encoding/json"
	"fmt"
	"strings"
	"testing"
	"unicode"

	"github.com/google/badwolf/bql/lexer"
	"github.com/google/badwolf/xverif/sim"
)

// C16: the lexer tokenizes every input faithfully, for all channel capacities.
// The lexer is a producer goroutine that sends tokens over a channel of the
// capacity its caller chose; here that goroutine is instrumented (a yield before
// every statement of bql/lexer/lexer.go) and runs against a consumer task under
// the seeded scheduler. What the simulation decides: termination, channel
// closure and goroutine exit under every interleaving of producer and consumer
// and every capacity, and that the token sequence is the same for all of them
// (shared scanner state handed to the consumer - a reused buffer, a token
// referring to fields the producer keeps advancing - would make it depend on who
// runs ahead). The per-input clauses of the property (ordered substrings, one
// terminal token) are oracles applied to the output of every run; the case and
// white space clauses are a labelled input-level probe.

func init() { register("C16", func() Harness { return &lexHarness{} }) }

type LexCase struct {
	Text    string `json:"text"`
	Origin  string `json:"origin"`
	Cap     int    `json:"cap"`
	Sched   uint64 `json:"sched"`
	Preempt int    `json:"preempt"`
	PMean   int    `json:"pmean"`
	Pace    int    `json:"pace"` // consumer: 0 never yields between receives, 1 always, 2 sometimes (tape), 3 sometimes pauses for seconds of simulated time
}

type lexHarness struct{}

func (h *lexHarness) Decode(b []byte) (any, error) {
	c := &LexCase{}
	return c, json.Unmarshal(b, c)
}

var lexCaps = []int{0, 0, 1, 2, 3, 8, 64}

func (h *lexHarness) Gen(r *Rand, tier string, clean bool) any {
	rc := (&robustHarness{}).Gen(r, tier, clean).(*RobustCase)
	c := &LexCase{Text: rc.Text, Origin: rc.Origin, Cap: lexCaps[r.Intn(len(lexCaps))], Sched: r.U64(), Preempt: r.Intn(6), PMean: []int{5, 20, 60}[r.Intn(3)], Pace: r.Intn(4)}
	if r.Chance(0.08) {
		// the printed form of one value, alone: it has to come out as one token carrying exactly that text
		var txt string
		switch r.Intn(7) {
		case 6:
			// values the vocabulary does not hold: text with line breaks and tabs inside, ids with backslashes (also last)
			txt = []string{"\"line one\nline two\"^^type:text", "\"tab\there\"^^type:text", "\"a\r\nb\"^^type:text", `/folder<C:\Users\joe\>`, `/u<a\>`, `/u<\a\b>`,
				`"back\slash"@[]`, "\"multi\nline\"@[2006-01-02T15:04:05Z]"}[r.Intn(8)]
		case 0:
			txt = V.Nodes[r.Intn(len(V.Nodes))].String()
		case 1:
			txt = V.Preds[r.Intn(len(V.Preds))].String()
		case 2:
			for txt == "" || strings.Count(txt, `"`) > 2 {
				o := V.Objs[r.Intn(len(V.Objs))]
				if _, err := o.Literal(); err == nil {
					txt = o.String()
				}
			}
		case 3:
			txt = []string{"?x", "?some_binding", "?B2"}[r.Intn(3)]
		case 4:
			txt = []string{"_:v1", "_:blank_node"}[r.Intn(2)]
		default:
			txt = []string{`"p"@[,]`, `"p"@[2006-01-02T15:04:05Z,]`, `"q"@[,2016-02-29T23:59:59.999999999Z]`, `"p"@[2006-01-02T15:04:05Z,2010-06-01T00:00:00.0000005Z]`, `"p"@[?lo,?hi]`}[r.Intn(5)]
		}
		c.Text, c.Origin = []string{"", " ", "\n"}[r.Intn(3)]+txt+[]string{"", " ", "\t"}[r.Intn(3)], "single-value"
		return c
	}
	if r.Chance(0.1) {
		// several statements in one text, odd white space
		other := (&robustHarness{}).Gen(r, tier, clean).(*RobustCase)
		c.Text = c.Text + []string{" ", "\n", "\t\n ", ""}[r.Intn(4)] + other.Text
	}
	return c
}

func (h *lexHarness) Shrink(ci any) []any {
	c := ci.(*LexCase)
	var out []any
	toks := tokSplit.Split(c.Text, -1)
	for chunk := len(toks) / 2; chunk >= 1; chunk /= 2 {
		for i := 0; i+chunk <= len(toks); i += chunk {
			d := *c
			d.Text = strings.Join(append(append([]string{}, toks[:i]...), toks[i+chunk:]...), " ")
			out = append(out, &d)
		}
	}
	if c.Preempt > 0 {
		d := *c
		d.Preempt--
		out = append(out, &d)
	}
	if c.Pace != 0 {
		d := *c
		d.Pace = 0
		out = append(out, &d)
	}
	return out
}

type lexRun struct {
	toks   []lexer.Token
	done   bool
	panicV string
	res    *sim.Result
	bubble string
	tape   []uint32
}

// lexOnce runs the lexer as a producer against a consumer task. sequential=true
// is the reference execution: capacity 0, an all-zero tape (never preempt, always
// keep running the current task).
func lexOnce(t *testing.T, text string, capacity int, sched uint64, preempt, pmean, pace int, sequential bool) *lexRun {
	lr := &lexRun{}
	tape := sim.NewTape(sched)
	if sequential {
		tape = sim.ReplayTape(nil)
	}
	sim.SetMapSeed(sched | 1)
	cfg := sim.Config{Preempt: preempt, PreemptMean: pmean, MaxSteps: 2000000, Trace: traceOn, TimeHorizon: 20 * time.Second}
	lr.res, lr.bubble = simRun(t, tape, cfg, func(r *sim.Runtime) {
		r.Client("consumer", func() {
			defer func() {
				if p := recover(); p != nil {
					lr.panicV = fmt.Sprint(p) + "\n" + string(stackOf())
				}
			}()
			c := lexer.New(text, capacity)
			pauses := 0
			for tok := range c {
				lr.toks = append(lr.toks, tok)
				switch pace {
				case 1:
					sim.Point(-30)
				case 2:
					if tp := sim.ActiveTape(); tp != nil && tp.Draw(3) == 0 {
						sim.Point(-30)
					}
				case 3:
					// a consumer that is busy elsewhere for a while (simulated time: the bubble's clock)
					if tp := sim.ActiveTape(); tp != nil && tp.Draw(4) == 0 && pauses < 3 {
						pauses++
						time.Sleep(3 * time.Second)
					}
					sim.Point(-30)
				}
			}
			lr.done = true
		})
	})
	lr.tape = tape.Rec
	return lr
}

func renderToks(ts []lexer.Token) string {
	var b strings.Builder
	for _, t := range ts {
		fmt.Fprintf(&b, "%s %q", t.Type, t.Text)
		if t.ErrorMessage != "" {
			fmt.Fprintf(&b, " err=%q", t.ErrorMessage)
		}
		b.WriteString("\n")
	}
	return b.String()
}

// spans embeds the token texts into the input left to right (earliest match);
// ok=false when some text does not occur after the end of its predecessor.
func lexSpans(text string, ts []lexer.Token) (spans [][2]int, bad int) {
	pos := 0
	for i, t := range ts {
		j := strings.Index(text[pos:], t.Text)
		if j < 0 {
			return spans, i
		}
		spans = append(spans, [2]int{pos + j, pos + j + len(t.Text)})
		pos += j + len(t.Text)
	}
	return spans, -1
}

func isKeywordType(tt lexer.TokenType) bool {
	ws := tokenText[tt]
	if len(ws) == 0 {
		return false
	}
	for _, c := range ws[0] {
		if !unicode.IsLetter(c) {
			return false
		}
	}
	switch tt {
	case lexer.ItemBinding, lexer.ItemBlankNode, lexer.ItemTime, lexer.ItemFilterFunction:
		return false
	}
	return true
}

func (h *lexHarness) Run(t *testing.T, ci any) *Outcome {
	c := ci.(*LexCase)
	o := okOutcome()
	mk := func(cls, f string, a ...any) *Outcome {
		v := violation("C16:"+cls, f, a...)
		v.Detail = fmt.Sprintf("input (%s): %q\n%s", c.Origin, c.Text, v.Detail)
		v.Stats, v.Execs = o.Stats, o.Execs
		return v
	}
	var dets []string
	// judge applies the run-level and structural oracles to one execution
	judge := func(what, text string, lr *lexRun) *Outcome {
		o.Execs++
		if lr.res == nil {
			return infra("no result: %s", lr.bubble)
		}
		if lr.res.Hazard != "" {
			return infra("scheduler hazard: %s", lr.res.Hazard)
		}
		o.stat("steps", lr.res.Steps)
		dets = append(dets, detHash(lr.res.Log, lr.tape, renderToks(lr.toks)))
		switch {
		case lr.panicV != "":
			return mk("panic:"+panicSite(lr.panicV), "%s: panic in the consumer: %s", what, firstLines(lr.panicV, 25))
		case len(lr.res.Panics) > 0:
			return mk("panic:"+panicSite(lr.res.Panics[0]), "%s: panic in the lexer goroutine: %s", what, firstLines(lr.res.Panics[0], 25))
		case lr.res.StepCap:
			return mk("no-progress", "%s: the lexer does not terminate (step cap after %d steps, %d tokens so far): %s", what, lr.res.Steps, len(lr.toks), joinLines(lr.res.Stuck, 6))
		case !lr.done || lr.res.Deadlock:
			return mk("channel-not-closed", "%s: the consumer never saw the channel closed (%d tokens): %s", what, len(lr.toks), joinLines(lr.res.Stuck, 6))
		case lr.res.Leaked > 0 || lr.bubble != "":
			return mk("goroutine-left", "%s: the lexer goroutine is still there after the channel was closed: %s %s", what, lr.res.LeakDump, lr.bubble)
		}
		if len(lr.toks) == 0 {
			return mk("no-terminal-token", "%s: the channel was closed without any token", what)
		}
		for i, tk := range lr.toks {
			terminal := tk.Type == lexer.ItemEOF || tk.Type == lexer.ItemError
			if terminal != (i == len(lr.toks)-1) {
				return mk("terminal-token", "%s: token %d of %d is %s: exactly one end-of-input or error token, as the last one\n%s", what, i, len(lr.toks), tk.Type, renderToks(lr.toks))
			}
		}
		if _, bad := lexSpans(text, lr.toks); bad >= 0 {
			return mk("token-not-an-ordered-substring", "%s: the text of token %d (%q) does not occur in the input after the end of token %d\n%s", what, bad, lr.toks[bad].Text, bad-1, renderToks(lr.toks))
		}
		return nil
	}
	ref := lexOnce(t, c.Text, 0, 0, 0, 0, 0, true)
	if v := judge("sequential reference run (capacity 0)", c.Text, ref); v != nil {
		return v
	}
	refR := renderToks(ref.toks)
	if c.Origin == "single-value" {
		if want := strings.TrimSpace(c.Text); len(ref.toks) != 2 || ref.toks[0].Text != want || ref.toks[1].Type != lexer.ItemEOF {
			return mk("value-not-one-token", "the printed form of a value must be emitted as one token carrying exactly that text\n%s", refR)
		}
		o.stat("probe_single_value_inputs", 1)
	}
	// the same input under other capacities, schedules and consumer paces
	vr := NewRand(c.Sched, 16)
	decisions := 0
	for i := 0; i < 3; i++ {
		capacity, sched, pre, pace := c.Cap, c.Sched, c.Preempt, c.Pace
		if i > 0 {
			capacity, sched, pre, pace = lexCaps[vr.Intn(len(lexCaps))], vr.U64(), vr.Intn(6), vr.Intn(4)
		}
		lr := lexOnce(t, c.Text, capacity, sched, pre, c.PMean, pace, false)
		what := fmt.Sprintf("capacity %d, schedule %d, %d preemptions, consumer pace %d", capacity, sched, pre, pace)
		if v := judge(what, c.Text, lr); v != nil {
			return v
		}
		decisions += lr.res.Decisions
		if got := renderToks(lr.toks); got != refR {
			return mk("tokens-depend-on-schedule-or-capacity", "%s: the token sequence differs from the sequential reference run\nreference:\n%s\nthis run:\n%s", what, refR, got)
		}
	}
	// labelled input-level probe: white space between tokens and the letter case of keywords / literal type names
	last := ref.toks[len(ref.toks)-1]
	if last.Type == lexer.ItemEOF {
		spans, _ := lexSpans(c.Text, ref.toks)
		var ws, kc strings.Builder
		pos, okWS := 0, true
		alt := []string{"  ", "\n", " \t ", "\n\n "}
		for i, sp := range spans {
			gap := c.Text[pos:sp[0]]
			if strings.TrimSpace(gap) != "" {
				okWS = false
			}
			g2 := gap
			if gap != "" {
				g2 = alt[vr.Intn(len(alt))]
			}
			ws.WriteString(g2)
			kc.WriteString(gap)
			tx := c.Text[sp[0]:sp[1]]
			ws.WriteString(tx)
			switch tt := ref.toks[i].Type; {
			case isKeywordType(tt):
				if vr.Bool() {
					tx = strings.ToUpper(tx)
				} else {
					tx = strings.ToLower(tx)
				}
			case tt == lexer.ItemLiteral:
				if k := strings.LastIndex(tx, `"^^type:`); k >= 0 && vr.Bool() {
					tx = tx[:k+8] + strings.ToUpper(tx[k+8:])
				}
			}
			kc.WriteString(tx)
			pos = sp[1]
		}
		tail := c.Text[pos:]
		if strings.TrimSpace(tail) != "" {
			okWS = false
		}
		ws.WriteString(tail)
		kc.WriteString(tail)
		probe := func(what, text string, foldCase bool) *Outcome {
			lr := lexOnce(t, text, c.Cap, c.Sched, c.Preempt, c.PMean, c.Pace, false)
			if v := judge(what, text, lr); v != nil {
				return v
			}
			if len(lr.toks) != len(ref.toks) {
				return mk("probe:"+what, "%d tokens instead of %d\nvariant input: %q\nreference:\n%s\nvariant:\n%s", len(lr.toks), len(ref.toks), text, refR, renderToks(lr.toks))
			}
			for i := range lr.toks {
				same := lr.toks[i].Text == ref.toks[i].Text || (foldCase && strings.EqualFold(lr.toks[i].Text, ref.toks[i].Text))
				if lr.toks[i].Type != ref.toks[i].Type || !same {
					return mk("probe:"+what, "token %d is %s %q instead of %s %q\nvariant input: %q", i, lr.toks[i].Type, lr.toks[i].Text, ref.toks[i].Type, ref.toks[i].Text, text)
				}
			}
			return nil
		}
		if okWS {
			if v := probe("white-space-between-tokens-changes-tokens", ws.String(), false); v != nil {
				return v
			}
			o.stat("probe_whitespace_variants", 1)
		}
		if v := probe("letter-case-of-keywords-changes-tokens", kc.String(), true); v != nil {
			return v
		}
		o.stat("probe_case_variants", 1)
	} else {
		o.stat("inputs_ending_in_an_error_token", 1)
	}
	o.stat("tokens", int64(len(ref.toks)))
	o.stat("origin_"+strings.SplitN(c.Origin, "|", 2)[0], 1)
	o.NonTrivial = decisions > 0 && len(ref.toks) > 1
	o.Hash = hashStr(c.Text)
	o.Det = hashStr(strings.Join(dets, ""))
	o.Sample = map[string]any{"input": c.Text, "origin": c.Origin, "tokens": len(ref.toks), "capacity": c.Cap, "runs": o.Execs}
	return o
}
