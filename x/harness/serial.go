package harness

import (
	"bytes"
	"context"
	"encoding/json"
	"fmt"
	"math"
	"regexp"
	"sort"
	"strconv"
	"strings"
	"testing"
	"time"

	bwio "github.com/google/badwolf/io"
	"github.com/google/badwolf/storage"
	"github.com/google/badwolf/storage/memory"
	"github.com/google/badwolf/triple"
	"github.com/google/badwolf/triple/literal"
	"github.com/google/badwolf/triple/node"
	"github.com/google/badwolf/triple/predicate"
	"github.com/google/badwolf/xverif/sim"
)

// C05 (the stream pipeline: graph -> WriteGraph -> writer -> disk -> reader ->
// ReadIntoGraph -> graph) and C15 (text damaged by storage faults handed to
// the reader and the parsers).

func init() {
	register("C05", func() Harness { return &serialHarness{prop: "C05"} })
	register("C15", func() Harness { return &serialHarness{prop: "C15"} })
}

// WSpec names a triple over the "wild" vocabulary (documented domain incl. its
// awkward corners). Indices into wildNodes / wildPreds / wildObjs.
type WSpec [3]int

var (
	wildNodes []*node.Node
	wildPreds []*predicate.Predicate
	wildObjs  []*triple.Object
	wildPlain [3]int // how many leading entries of each list are "plain"
)

func init() {
	for _, x := range [][2]string{{"/u", "a"}, {"/u", "b"}, {"/t/x", "a"}, {"/item/book", "Sophie's_World"},
		// corners of the documented domain: no whitespace, no '<' '>'
		{"/u", `a"b`}, {"/u", `x@[y]`}, {"/u", `ü∆`}, {"/u", `back\slash`}, {"/u", `]"`}, {"/_", "blank-like"}} {
		wildNodes = append(wildNodes, mustNode(x[0], x[1]))
	}
	wildPlain[0] = 4
	zoneP := time.FixedZone("", 2*3600)
	zoneM := time.FixedZone("", -8*3600)
	anchors := []time.Time{T1, T2, T3, T2.In(zoneP), time.Date(2016, 1, 1, 1, 2, 3, 4000, zoneM)}
	for _, id := range []string{"p", "q", "parent_of"} {
		wildPreds = append(wildPreds, mustImm(id))
	}
	for i, a := range anchors {
		wildPreds = append(wildPreds, mustTmp([]string{"p", "q", "p", "p", "r"}[i], a))
	}
	wildPlain[1] = len(wildPreds)
	for _, id := range []string{`p"q`, `id@[x`, `a]b`, `"@[`, `ünï`, `back\slash`, `]`, `a"@[b`, `[]`} {
		wildPreds = append(wildPreds, mustImm(id), mustTmp(id, T2))
	}
	wildObjs = append(wildObjs, triple.NewNodeObject(wildNodes[0]), triple.NewNodeObject(wildNodes[2]),
		mustLit(literal.Bool, true), mustLit(literal.Int64, int64(-5)), mustLit(literal.Int64, int64(42)),
		mustLit(literal.Float64, 2.5), mustLit(literal.Float64, -0.5), mustLit(literal.Text, "a"), mustLit(literal.Text, "hello world"),
		mustLit(literal.Blob, []byte{1, 2}), triple.NewPredicateObject(wildPreds[0]), triple.NewPredicateObject(wildPreds[4]))
	wildPlain[2] = len(wildObjs)
	wildObjs = append(wildObjs,
		mustLit(literal.Int64, int64(math.MaxInt64)), mustLit(literal.Int64, int64(math.MinInt64)),
		mustLit(literal.Float64, math.Copysign(0, -1)), mustLit(literal.Float64, math.Inf(1)), mustLit(literal.Float64, math.Inf(-1)),
		mustLit(literal.Float64, 5e-324), mustLit(literal.Float64, 1e300), mustLit(literal.Float64, 0.1),
		mustLit(literal.Text, `"^^type:`), mustLit(literal.Text, `with "quote"`), mustLit(literal.Text, `] /x`), mustLit(literal.Text, `"p"@[]`), mustLit(literal.Text, ""),
		mustLit(literal.Text, "ünïcödé ∆"), mustLit(literal.Text, `a"^^type:int64`),
		mustLit(literal.Blob, []byte{}), mustLit(literal.Blob, []byte{0, 255}),
		triple.NewNodeObject(wildNodes[4]), triple.NewNodeObject(wildNodes[8]),
		triple.NewPredicateObject(wildPreds[8]), triple.NewPredicateObject(wildPreds[9]), triple.NewPredicateObject(wildPreds[len(wildPreds)-3]),
	)
}

func (s WSpec) Triple() *triple.Triple {
	t, err := triple.New(wildNodes[s[0]], wildPreds[s[1]], wildObjs[s[2]])
	if err != nil {
		panic(err)
	}
	return t
}

type SerialCase struct {
	Ts       []WSpec `json:"ts"`
	Wild     bool    `json:"wild,omitempty"`
	Seed     uint64  `json:"seed"`
	MaxStep  int     `json:"maxstep"`
	EOFWith  bool    `json:"eofwith,omitempty"`
	Zeros    int     `json:"zeros,omitempty"`
	WFail    int     `json:"wfail"` // writer fails at this byte (-1: never)
	RFail    int     `json:"rfail"` // reader fails at this byte (-1: never)
	Damage   string  `json:"damage,omitempty"` // C15: "", enumerate, or a pinned damage "torn:k" | "head:k" | "flip:k:bit" | "zero:k:n" | "xpose:a:b:c" | "dup:i" | "drop:i" | "merge:i", or two joined by "+"
	Rendered []string `json:"rendered,omitempty"`
	Long     []int    `json:"long,omitempty"` // C05: extra triples with a text literal padded so that the printed line has exactly this length
	Big      int      `json:"big,omitempty"`  // C05: this many extra small triples (graphs larger than any page / buffer size)
	Conc     bool       `json:"conc,omitempty"`    // C15: the parsers are called by several tasks at once (anything they share - a cache, a scratch value - is exposed to interleaving)
	Deep     bool       `json:"deep,omitempty"`    // C15 thorough tier: every bit flip, every reader-failure offset and every (lost head x lost separator) pair of small images
	SrcFail  *FaultSpec `json:"srcfail,omitempty"` // C05: the graph being exported fails its listing (before the first / after j triples)
	DstFail  int        `json:"dstfail,omitempty"` // C05: the graph being loaded refuses its k-th AddTriples call (0: never)
}

var longTargets = []int{4095, 4096, 4097, 8191, 8192, 8193, 12288, 16384, 20480, 65535, 65536, 65537, 70000, 131072}

// extraTriples builds the Long and Big triples of a case.
func (c *SerialCase) extraTriples() []*triple.Triple {
	var ts []*triple.Triple
	mk := func(i int, pad string) *triple.Triple {
		t, err := triple.New(mustNode("/u", "a"), mustImm("p"), mustLit(literal.Text, fmt.Sprintf("%d:", i)+pad))
		if err != nil {
			panic(err)
		}
		return t
	}
	for i, target := range c.Long {
		overhead := len(mk(i, "").String())
		if target > overhead {
			ts = append(ts, mk(i, strings.Repeat("x", target-overhead)))
		}
	}
	for i := 0; i < c.Big; i++ {
		t, err := triple.New(mustNode("/n", strconv.Itoa(i)), mustImm("p"), triple.NewNodeObject(mustNode("/u", "a")))
		if err != nil {
			panic(err)
		}
		ts = append(ts, t)
	}
	return ts
}

type serialHarness struct{ prop string }

func (h *serialHarness) Decode(b []byte) (any, error) {
	c := &SerialCase{}
	return c, json.Unmarshal(b, c)
}

func (h *serialHarness) Gen(r *Rand, tier string, clean bool) any {
	c := &SerialCase{Seed: r.U64(), MaxStep: []int{1, 2, 7, 64, 4096}[r.Intn(5)], EOFWith: r.Bool(), WFail: -1, RFail: -1}
	if r.Chance(0.3) {
		c.Zeros = r.Intn(20)
	}
	c.Wild = !clean && r.Chance(0.6)
	nn, np, no := wildPlain[0], wildPlain[1], wildPlain[2]
	if c.Wild {
		nn, np, no = len(wildNodes), len(wildPreds), len(wildObjs)
	}
	n := r.Intn(14)
	if h.prop == "C15" {
		n = 1 + r.Intn(5)
	} else if r.Chance(0.1) {
		n = r.Range(60, 220) // an image larger than the reader's initial buffer
	}
	seen := map[string]bool{}
	for i := 0; i < n; i++ {
		s := WSpec{r.Intn(nn), r.Intn(np), r.Intn(no)}
		if k := tripleKey(s.Triple()); !seen[k] {
			seen[k] = true
			c.Ts = append(c.Ts, s)
		}
	}
	if h.prop == "C05" {
		switch r.Intn(10) {
		case 0:
			c.WFail = r.Intn(200)
		case 1:
			c.RFail = r.Intn(200)
		case 2:
			c.SrcFail = &FaultSpec{Mode: []string{"before", "after", "afterlate"}[r.Intn(3)], J: r.Range(1, 4)}
		case 3:
			c.DstFail = 1 + r.Intn(5)
		}
		if r.Chance(0.06) {
			// lines whose length sits on / next to the block sizes of buffered readers
			for _, k := range pickDistinct(r, len(longTargets), 1+r.Intn(2)) {
				c.Long = append(c.Long, longTargets[k])
			}
		}
		if r.Chance(0.01) {
			c.Big = []int{4095, 4096, 4097, 5000, 8193}[r.Intn(5)]
		}
	} else {
		c.Damage = "enumerate"
		c.Deep = tier == "thorough"
		c.Conc = r.Chance(0.3)
	}
	return c
}

func (h *serialHarness) Shrink(ci any) []any {
	c := ci.(*SerialCase)
	var out []any
	for i := range c.Ts {
		d := *c
		d.Ts = append(append([]WSpec{}, c.Ts[:i]...), c.Ts[i+1:]...)
		out = append(out, &d)
	}
	if c.MaxStep != 4096 || c.Zeros != 0 || c.EOFWith {
		d := *c
		d.MaxStep, d.Zeros, d.EOFWith = 4096, 0, false
		out = append(out, &d)
	}
	return out
}

func graphOf(ctx context.Context, ts []*triple.Triple) storage.Graph {
	st := memory.NewStore()
	g, err := st.NewGraph(ctx, "?g")
	if err != nil {
		panic(err)
	}
	if err := g.AddTriples(ctx, ts); err != nil {
		panic(err)
	}
	return g
}

// allTriples lists a graph whatever its size (the listing is drained while it is produced).
func allTriples(ctx context.Context, g storage.Graph) ([]*triple.Triple, error) {
	return collect(func(c chan<- *triple.Triple) error { return g.Triples(ctx, storage.DefaultLookup, c) })
}

func listing(ctx context.Context, g storage.Graph) []string {
	ts, _ := allTriples(ctx, g)
	var ks []string
	for _, t := range ts {
		ks = append(ks, tripleKey(t))
	}
	sort.Strings(ks)
	return ks
}

// writeGraphSim runs io.WriteGraph as a simulated client (its producer
// goroutine is scheduled by the seed; hangs and leaks are detected).
func writeGraphSim(t *testing.T, g storage.Graph, w *simWriter, seed uint64) (n int, err error, res *sim.Result, bubble string) {
	ctx := context.Background()
	done := false
	res, bubble = simRun(t, sim.NewTape(seed), sim.Config{Preempt: int(seed % 3), PreemptMean: 30, MaxSteps: 200000, Trace: traceOn}, func(r *sim.Runtime) {
		r.Client("export", func() {
			n, err = bwio.WriteGraph(ctx, w, g)
			done = true
		})
	})
	if res != nil && !done && !res.Deadlock && !res.StepCap {
		res.Deadlock = true
	}
	return
}

func (h *serialHarness) Run(t *testing.T, ci any) *Outcome {
	c := ci.(*SerialCase)
	if h.prop == "C15" {
		return h.runDamage(t, c)
	}
	o := okOutcome()
	ctx := context.Background()
	var ts []*triple.Triple
	for _, s := range c.Ts {
		ts = append(ts, s.Triple())
	}
	nSmall := len(ts)
	ts = append(ts, c.extraTriples()...)
	mk := func(cls, f string, a ...any) *Outcome {
		v := violation("C05:"+cls, f, a...)
		if len(v.Detail) > 3000 {
			v.Detail = v.Detail[:3000] + fmt.Sprintf(" ... (%d bytes)", len(v.Detail))
		}
		var lines []string
		for _, x := range ts {
			if ln := x.String(); len(ln) < 300 && len(lines) < 40 {
				lines = append(lines, ln)
			} else if len(ln) >= 300 {
				lines = append(lines, fmt.Sprintf("%s ... (a line of %d bytes)", ln[:60], len(ln)))
			}
		}
		v.Detail += "\ngraph:\n" + strings.Join(lines, "\n")
		v.Stats = o.Stats
		return v
	}
	// value level probe (input sampling, not simulation): every component prints and re-parses
	for _, x := range ts[:nSmall] {
		if cls, msg := valueRoundTrip(x); cls != "" {
			return mk("value-roundtrip:"+cls, "%s", msg)
		}
	}
	sim.SetMapSeed(c.Seed | 1)
	src := graphOf(ctx, ts)
	want := listing(ctx, src)
	w := &simWriter{failAt: c.WFail}
	exportFrom := src
	var srcStub *simStore
	if c.SrcFail != nil {
		// the graph is served by a driver that fails its listing: call 0 of the stub is the Triples call of WriteGraph
		srcStub = newSimStore(nil, simStoreCfg{Faults: []FaultSpec{{Call: 0, Mode: c.SrcFail.Mode, J: c.SrcFail.J}}})
		exportFrom = &simGraph{s: srcStub, g: src, id: "?g"}
	}
	n, err, res, bubble := writeGraphSim(t, exportFrom, w, c.Seed)
	if res == nil {
		return infra("no result: %s", bubble)
	}
	if res.Hazard != "" {
		return infra("scheduler hazard: %s", res.Hazard)
	}
	o.stat("steps", res.Steps)
	o.Det = detHash(res.Log, nil, string(w.buf), fmt.Sprint(n, err))
	switch {
	case len(res.Panics) > 0:
		return mk("panic:"+panicSite(res.Panics[0]), "%s", firstLines(res.Panics[0], 25))
	case res.Deadlock || res.StepCap:
		return mk("writegraph-hang", "WriteGraph did not return: %s", joinLines(res.Stuck, 6))
	case res.Leaked > 0 || bubble != "":
		return mk("writegraph-goroutine-left", "%s %s", res.LeakDump, bubble)
	}
	if srcStub != nil && srcStub.failed > 0 {
		o.stat("fault_export_driver_error", 1)
		if err == nil {
			return mk("driver-error-swallowed:export", "the graph's listing failed (%v) but WriteGraph reported success (%d triples)", srcStub.fired, n)
		}
		o.NonTrivial = true
		o.Hash = hashStr("sf" + fmt.Sprint(c.Ts, *c.SrcFail))
		return o
	}
	if w.fired {
		o.stat("fault_write_error", 1)
		if err == nil {
			return mk("write-error-swallowed", "the writer failed at byte %d but WriteGraph reported success (%d triples)", c.WFail, n)
		}
		o.NonTrivial = true
		o.Hash = hashStr("wf" + fmt.Sprint(c.Ts, c.WFail))
		return o
	}
	if err != nil {
		return mk("writegraph-error", "%v", err)
	}
	if n != len(want) {
		return mk("writegraph-count", "WriteGraph reports %d triples, the graph holds %d", n, len(want))
	}
	// read back through the adversarial reader
	rd := &simReader{data: w.buf, r: NewRand(c.Seed, 5), maxStep: c.MaxStep, eofWith: c.EOFWith, zeros: c.Zeros, failAt: c.RFail}
	dst := graphOf(ctx, nil)
	loadInto := dst
	var dstStub *simStore
	if c.DstFail > 0 {
		dstStub = newSimStore(nil, simStoreCfg{Faults: []FaultSpec{{Call: c.DstFail - 1, Mode: "fail"}}})
		loadInto = &simGraph{s: dstStub, g: dst, id: "?g"}
	}
	m, rerr := bwio.ReadIntoGraph(ctx, loadInto, rd, literal.DefaultBuilder())
	if dstStub != nil && dstStub.failed > 0 {
		o.stat("fault_import_driver_error", 1)
		if rerr == nil {
			return mk("driver-error-swallowed:import", "the graph refused a write (%v) but ReadIntoGraph reported success (%d triples)", dstStub.fired, m)
		}
		// what was reported as loaded is what the graph holds, and it is part of the exported set
		got := listing(ctx, dst)
		if m != len(got) {
			return mk("readintograph-count-after-driver-error", "ReadIntoGraph reports %d triples, the graph holds %d", m, len(got))
		}
		if extra, _ := multisetDiff(got, want); len(extra) > 0 {
			return mk("roundtrip-set-differs", "after a refused write the graph holds triples that were never exported: %q", extra)
		}
		o.NonTrivial = true
		o.Hash = hashStr("df" + fmt.Sprint(c.Ts, c.DstFail))
		return o
	}
	if rd.fired {
		o.stat("fault_read_error", 1)
		if rerr == nil {
			return mk("read-error-swallowed", "the reader failed at byte %d of %d but ReadIntoGraph reported success (%d triples)", c.RFail, len(w.buf), m)
		}
		// what is reported as loaded is what the graph holds, and it is part of the exported set
		got := listing(ctx, dst)
		if m != len(got) {
			return mk("readintograph-count-after-read-error", "the reader failed at byte %d: ReadIntoGraph reports %d triples, the graph holds %d", c.RFail, m, len(got))
		}
		if extra, _ := multisetDiff(got, want); len(extra) > 0 {
			return mk("roundtrip-set-differs", "after a read error the graph holds triples that were never exported: %q", extra)
		}
		o.NonTrivial = true
		o.Hash = hashStr("rf" + fmt.Sprint(c.Ts, c.RFail))
		return o
	}
	if rerr != nil {
		return mk("readintograph-error", "%v\nimage:\n%s", rerr, w.buf)
	}
	got := listing(ctx, dst)
	if !equalStrings(got, want) {
		extra, missing := multisetDiff(got, want)
		return mk("roundtrip-set-differs", "extra=%q missing=%q\nimage:\n%s", extra, missing, w.buf)
	}
	if m != len(want) {
		return mk("readintograph-count", "ReadIntoGraph reports %d triples, the text holds %d", m, len(want))
	}
	// re-export is byte identical
	w2 := &simWriter{failAt: -1}
	if _, err := bwio.WriteGraph(ctx, w2, dst); err != nil {
		return mk("writegraph-error", "re-export: %v", err)
	}
	if !bytes.Equal(w.buf, w2.buf) {
		return mk("reexport-differs", "first:\n%s\nsecond:\n%s", w.buf, w2.buf)
	}
	o.NonTrivial = len(want) > 0
	o.Hash = hashStr(fmt.Sprint(c.Ts, c.MaxStep, c.EOFWith, c.Zeros))
	o.Sample = map[string]any{"image": strings.Split(string(w.buf), "\n"), "reader": map[string]any{"maxstep": c.MaxStep, "eof_with_data": c.EOFWith, "zero_reads": c.Zeros, "calls": rd.calls}}
	return o
}

// valueRoundTrip: each component prints to text that parses back to an equal
// value and prints the same text again.
func valueRoundTrip(t *triple.Triple) (string, string) {
	defer func() { recover() }()
	s := t.Subject()
	if n2, err := node.Parse(s.String()); err != nil || nodeKey(n2) != nodeKey(s) || n2.String() != s.String() {
		return "node", fmt.Sprintf("node %q -> %v, %v", s.String(), n2, err)
	}
	p := t.Predicate()
	p2, err := predicate.Parse(p.String())
	if err != nil || predKey(p2) != predKey(p) || p2.String() != p.String() {
		return "predicate:" + predShape(p), fmt.Sprintf("predicate %s -> %v, %v", p.String(), p2, err)
	}
	o := t.Object()
	o2, err := triple.ParseObject(o.String(), literal.DefaultBuilder())
	if err != nil || o2 == nil || objKey(o2) != objKey(o) || o2.String() != o.String() {
		shape := "node"
		if l, e := o.Literal(); e == nil {
			shape = "literal-" + l.Type().String()
		} else if op, e := o.Predicate(); e == nil {
			shape = "predicate:" + predShape(op)
		}
		return "object:" + shape, fmt.Sprintf("object %s -> %v, %v", o.String(), o2, err)
	}
	t2, err := triple.Parse(t.String(), literal.DefaultBuilder())
	if err != nil || tripleKey(t2) != tripleKey(t) || t2.String() != t.String() {
		return "triple", fmt.Sprintf("triple %q -> %v, %v", t.String(), t2, err)
	}
	return "", ""
}

func predShape(p *predicate.Predicate) string {
	id := string(p.ID())
	switch {
	case strings.Contains(id, `"@[`):
		return "id-contains-anchor-delimiter"
	case strings.ContainsAny(id, `"\`):
		return "id-needs-quoting"
	}
	return "plain-id"
}

// ---- C15 ---------------------------------------------------------------------------

var (
	refNode = regexp.MustCompile(`^(/[^\s<>/]+)+<[^<>\s]+>$`)
	refLit  = regexp.MustCompile(`^"(.*)"\^\^type:(bool|int64|float64|text|blob)$`)
	refPred = regexp.MustCompile(`^("(?:[^"\\]|\\.)*")@\[([^\]]*)\]$`)
)

// refField: is the text a well formed node / predicate / literal of the
// serialisation format (docs/graph_serialization.md, temporal_graph_modeling.md)?
func refNodeOK(s string) bool { return refNode.MatchString(s) }

func refPredOK(s string) bool {
	m := refPred.FindStringSubmatch(s)
	if m == nil {
		return false
	}
	id, err := strconv.Unquote(m[1])
	if err != nil || id == "" || strings.ContainsAny(id, " \t\n\r") {
		return false
	}
	if m[2] == "" {
		return true
	}
	_, err = time.Parse(time.RFC3339Nano, m[2])
	return err == nil
}

func refLitOK(s string) bool {
	m := refLit.FindStringSubmatch(s)
	if m == nil {
		return false
	}
	v := m[1]
	switch m[2] {
	case "bool":
		_, err := strconv.ParseBool(v)
		return err == nil
	case "int64":
		_, err := strconv.ParseInt(v, 10, 64)
		return err == nil
	case "float64":
		_, err := strconv.ParseFloat(v, 64)
		return err == nil
	case "text":
		return !strings.Contains(v, `"^^type:`)
	case "blob":
		if len(v) < 2 || v[0] != '[' || v[len(v)-1] != ']' {
			return false
		}
		if v == "[]" {
			return true
		}
		for _, b := range strings.Split(v[1:len(v)-1], " ") {
			if _, err := strconv.ParseUint(b, 10, 8); err != nil {
				return false
			}
		}
		return true
	}
	return false
}

func refLineOK(line string) bool {
	f := strings.Split(strings.TrimSpace(line), "\t")
	if len(f) != 3 {
		return false
	}
	return refNodeOK(f[0]) && refPredOK(f[1]) && (refNodeOK(f[2]) || refPredOK(f[2]) || refLitOK(f[2]))
}

type damage struct {
	name  string
	img   []byte
	rfail int // the reader fails at this byte offset of the (damaged) image (<0: never)
	gfail int // the graph being loaded refuses its k-th write (0: never)
}

func (h *serialHarness) damages(c *SerialCase, img []byte, r *Rand) []damage {
	if c.Damage != "" && c.Damage != "enumerate" {
		return []damage{applyDamage(c.Damage, img)}
	}
	var ds []damage
	if len(img) <= 400 {
		for k := 0; k < len(img); k++ { // every truncation point
			ds = append(ds, applyDamage(fmt.Sprintf("torn:%d", k), img))
		}
	} else {
		for i := 0; i < 120; i++ {
			ds = append(ds, applyDamage(fmt.Sprintf("torn:%d", r.Intn(len(img))), img))
		}
	}
	if c.Deep && len(img) <= 220 {
		for k := 0; k < len(img); k++ { // every single-bit flip, every reader-failure offset
			for b := 0; b < 8; b++ {
				ds = append(ds, applyDamage(fmt.Sprintf("flip:%d:%d", k, b), img))
			}
			ds = append(ds, applyDamage(fmt.Sprintf("rfail:%d", k), img))
		}
		nl0 := len(splitLines(img))
		for k := 1; k < len(img); k += 1 + len(img)/120 { // lost head x lost separator
			for i := 0; i < nl0; i++ {
				ds = append(ds, applyDamage(fmt.Sprintf("head:%d+merge:%d", k, i), img))
			}
		}
	}
	for i := 0; i < 60 && len(img) > 0; i++ {
		ds = append(ds, applyDamage(fmt.Sprintf("flip:%d:%d", r.Intn(len(img)), r.Intn(8)), img))
	}
	nl := len(splitLines(img))
	for i := 0; i < nl; i++ {
		ds = append(ds, applyDamage(fmt.Sprintf("dup:%d", i), img), applyDamage(fmt.Sprintf("drop:%d", i), img))
		ds = append(ds, applyDamage(fmt.Sprintf("merge:%d", i), img)) // the record separator is lost
	}
	if len(img) > 0 {
		// the head of the file is lost (first extent never reached the disk): every offset of small images
		if len(img) <= 400 {
			for k := 1; k < len(img); k++ {
				ds = append(ds, applyDamage(fmt.Sprintf("head:%d", k), img))
			}
		} else {
			for i := 0; i < 60; i++ {
				ds = append(ds, applyDamage(fmt.Sprintf("head:%d", 1+r.Intn(len(img)-1)), img))
			}
		}
		// adjacent extents written in the wrong order, an extent left unwritten (zeros)
		for i := 0; i < 40 && len(img) > 2; i++ {
			a := r.Intn(len(img) - 2)
			b := a + 1 + r.Intn(len(img)-a-1)
			c := b + 1 + r.Intn(len(img)-b)
			ds = append(ds, applyDamage(fmt.Sprintf("xpose:%d:%d:%d", a, b, c), img))
		}
		for i := 0; i < 25; i++ {
			ds = append(ds, applyDamage(fmt.Sprintf("zero:%d:%d", r.Intn(len(img)), 1+r.Intn(8)), img))
		}
		// sampled double damage: two independent storage faults hit the same file
		single := func() string {
			switch r.Intn(6) {
			case 0:
				return fmt.Sprintf("torn:%d", r.Intn(len(img)))
			case 1:
				return fmt.Sprintf("flip:%d:%d", r.Intn(len(img)), r.Intn(8))
			case 2:
				return fmt.Sprintf("merge:%d", r.Intn(nl+1))
			case 3:
				return fmt.Sprintf("drop:%d", r.Intn(nl+1))
			case 4:
				return fmt.Sprintf("zero:%d:%d", r.Intn(len(img)), 1+r.Intn(4))
			}
			return fmt.Sprintf("head:%d", 1+r.Intn(len(img)))
		}
		for i := 0; i < 50; i++ {
			ds = append(ds, applyDamage(single()+"+"+single(), img))
		}
		// a run of bytes without record separator, longer than any buffer a line reader would use (64 KiB)
		for i := 0; i <= nl; i++ {
			if i == 0 || i == nl || r.Chance(0.5) {
				ds = append(ds, applyDamage(fmt.Sprintf("junk:%d:%d", i, 65536+r.Intn(9000)), img))
			}
		}
		// an escape sequence lands inside the text (delimiter / escape injection)
		for i := 0; i < 40; i++ {
			ds = append(ds, applyDamage(fmt.Sprintf("esc:%d:%d", r.Intn(len(img)), r.Intn(len(escSeqs))), img))
		}
		// the medium fails while the (intact or torn) file is being read
		for i := 0; i < 25; i++ {
			ds = append(ds, applyDamage(fmt.Sprintf("rfail:%d", r.Intn(len(img)+1)), img))
		}
		// the graph being loaded refuses its k-th write (intact file, and a file that is also torn)
		for k := 1; k <= nl; k++ {
			ds = append(ds, applyDamage(fmt.Sprintf("gfail:%d", k), img))
			ds = append(ds, applyDamage(fmt.Sprintf("gfail:%d+torn:%d", k, r.Intn(len(img))), img))
		}
		for i := 0; i < 30 && nl > 1; i++ {
			// a lost head in front of a lost separator: the first record starts in the middle and runs into the next
			ds = append(ds, applyDamage(fmt.Sprintf("head:%d+merge:0", 1+r.Intn(len(img)-1)), img))
		}
	}
	return ds
}

var escSeqs = []string{`\n`, `\t`, `\x00`, `\xe9`, `\u00e9`, `\"`, `\\`, `\r`, "\r", "\xe9", "\x00"}

func applyDamage(spec string, img []byte) damage {
	out := append([]byte{}, img...)
	d := damage{name: spec, rfail: -1}
	for _, one := range strings.Split(spec, "+") {
		if strings.HasPrefix(one, "rfail:") {
			d.rfail, _ = strconv.Atoi(one[6:])
			continue
		}
		if strings.HasPrefix(one, "gfail:") {
			d.gfail, _ = strconv.Atoi(one[6:])
			continue
		}
		out = applyOne(one, out)
	}
	d.img = out
	return d
}

func applyOne(spec string, img []byte) []byte {
	p := strings.Split(spec, ":")
	a := func(i int) int {
		if i >= len(p) {
			return 0
		}
		n, _ := strconv.Atoi(p[i])
		return n
	}
	out := append([]byte{}, img...)
	switch p[0] {
	case "torn":
		if k := a(1); k <= len(out) {
			out = out[:k]
		}
	case "head":
		if k := a(1); k <= len(out) {
			out = out[k:]
		}
	case "flip":
		if k := a(1); k < len(out) {
			out[k] ^= 1 << uint(a(2))
		}
	case "zero":
		for k := a(1); k < a(1)+a(2) && k < len(out); k++ {
			out[k] = 0
		}
	case "xpose":
		x, y, z := a(1), a(2), a(3)
		if 0 <= x && x < y && y < z && z <= len(out) {
			out = append(append(append(append([]byte{}, img[:x]...), img[y:z]...), img[x:y]...), img[z:]...)
		}
	case "junk":
		ls := splitLines(img)
		run := bytes.Repeat([]byte{'x'}, a(2))
		i := a(1)
		if i > len(ls) {
			i = len(ls)
		}
		ls = append(append(append([][]byte{}, ls[:i]...), run), ls[i:]...)
		out = joinLinesB(ls)
	case "esc":
		if k := a(1); k <= len(out) && a(2) < len(escSeqs) {
			out = append(append(append([]byte{}, img[:k]...), escSeqs[a(2)]...), img[k:]...)
		}
	case "merge":
		ls := splitLines(img)
		if i := a(1); i < len(ls) && len(ls[i]) > 0 && ls[i][len(ls[i])-1] == '\n' {
			ls[i] = ls[i][:len(ls[i])-1]
		}
		out = joinLinesB(ls)
	case "dup":
		ls := splitLines(img)
		if i := a(1); i < len(ls) {
			ls = append(ls[:i+1], append([][]byte{ls[i]}, ls[i+1:]...)...)
		}
		out = joinLinesB(ls)
	case "drop":
		ls := splitLines(img)
		if i := a(1); i < len(ls) {
			ls = append(append([][]byte{}, ls[:i]...), ls[i+1:]...)
		}
		out = joinLinesB(ls)
	}
	return out
}

// parseOutcome: what a parser made of a text, comparable across calls.
func parseOutcome(kind, text string) string {
	defer func() { recover() }()
	switch kind {
	case "node":
		if n, err := node.Parse(text); err == nil && n != nil {
			return "ok " + nodeKey(n) + " " + n.String()
		}
	case "predicate":
		if p, err := predicate.Parse(text); err == nil && p != nil {
			return "ok " + predKey(p) + " " + p.String()
		}
	case "literal":
		if l, err := literal.DefaultBuilder().Parse(text); err == nil && l != nil {
			return "ok " + litKey(l) + " " + l.String()
		}
	case "triple":
		if tr, err := triple.Parse(text, literal.DefaultBuilder()); err == nil && tr != nil {
			return "ok " + tripleKey(tr) + " " + tr.String()
		}
	}
	return "rejected"
}

// runConcurrentParse: the texts of an exported image (lines and fields) are parsed by several tasks at once under the
// seeded scheduler (the value packages are instrumented in this check's build); every result must be what the same
// call gives on its own.
func (h *serialHarness) runConcurrentParse(t *testing.T, c *SerialCase, img []byte) *Outcome {
	o := okOutcome()
	type item struct{ kind, text string }
	var items []item
	for _, ln := range strings.Split(string(img), "\n") {
		if strings.TrimSpace(ln) == "" {
			continue
		}
		items = append(items, item{"triple", ln})
		for i, f := range strings.Split(ln, "\t") {
			switch {
			case i == 0:
				items = append(items, item{"node", f})
			case i == 1:
				items = append(items, item{"predicate", f})
			default:
				items = append(items, item{"node", f}, item{"predicate", f}, item{"literal", f})
			}
		}
	}
	if len(items) == 0 {
		return o
	}
	alone := make([]string, len(items))
	for i, it := range items {
		alone[i] = parseOutcome(it.kind, it.text)
	}
	r := NewRand(c.Seed, 151)
	ntasks := r.Range(2, 4)
	calls := make([][]int, ntasks)
	// half of the runs concentrate on one kind of text (all tasks in the same parser at the same time)
	focus := ""
	if r.Bool() {
		focus = []string{"predicate", "triple", "literal", "node"}[r.Intn(4)]
	}
	var pool []int
	for i, it := range items {
		if focus == "" || it.kind == focus {
			pool = append(pool, i)
		}
	}
	if len(pool) == 0 {
		for i := range items {
			pool = append(pool, i)
		}
	}
	for ti := range calls {
		for k, m := 0, r.Range(4, 12); k < m; k++ {
			calls[ti] = append(calls[ti], pool[r.Intn(len(pool))])
		}
	}
	type obs struct {
		task, idx int
		got       string
	}
	var seen []obs
	tape := sim.NewTape(c.Seed)
	res, bmsg := simRun(t, tape, sim.Config{Preempt: 1 + int(c.Seed%8), PreemptMean: []int{2, 5, 15}[int(c.Seed>>8)%3], MaxSteps: 400000, Trace: traceOn}, func(rt *sim.Runtime) {
		for ti := range calls {
			ti := ti
			rt.Client(fmt.Sprintf("p%d", ti), func() {
				for _, idx := range calls[ti] {
					sim.Point(-50)
					sim.PreemptSoon(60) // one switch somewhere inside this call, wherever: faults belong inside operations
					seen = append(seen, obs{ti, idx, parseOutcome(items[idx].kind, items[idx].text)})
				}
			})
		}
	})
	if res == nil {
		return infra("no result: %s", bmsg)
	}
	if res.Hazard != "" {
		return infra("scheduler hazard: %s", res.Hazard)
	}
	o.stat("steps", res.Steps)
	o.stat("concurrent_parse_calls", int64(len(seen)))
	o.Execs = 1
	if len(res.Panics) > 0 {
		return violation("C15:panic:"+panicSite(res.Panics[0]), "panic while parsing concurrently: %s", firstLines(res.Panics[0], 20))
	}
	if res.Deadlock || res.StepCap {
		return violation("C15:no-progress:concurrent-parse", "%s", joinLines(res.Stuck, 6))
	}
	for _, s := range seen {
		if s.got != alone[s.idx] {
			return violation("C15:parse-depends-on-concurrent-callers:"+items[s.idx].kind, "task %d: %s.Parse(%q) = %q while other tasks were parsing, %q on its own", s.task, items[s.idx].kind, items[s.idx].text, s.got, alone[s.idx])
		}
	}
	o.NonTrivial = res.Decisions > 0
	o.Hash = hashStr(fmt.Sprint(c.Ts, c.Wild, "conc", res.SchedHash))
	o.Sample = map[string]any{"image": strings.Split(string(img), "\n"), "concurrent_calls": calls}
	return o
}

func (h *serialHarness) runDamage(t *testing.T, c *SerialCase) *Outcome {
	o := okOutcome()
	ctx := context.Background()
	var ts []*triple.Triple
	for _, s := range c.Ts {
		ts = append(ts, s.Triple())
	}
	src := graphOf(ctx, ts)
	w := &simWriter{failAt: -1}
	if _, err := bwio.WriteGraph(ctx, w, src); err != nil {
		return infra("export failed: %v", err)
	}
	if c.Conc {
		return h.runConcurrentParse(t, c, w.buf)
	}
	r := NewRand(c.Seed, 15)
	o.Execs = 0
	kinds := map[string]int64{}
	for _, d := range h.damages(c, w.buf, r) {
		o.Execs++
		progressTick()
		if strings.Contains(d.name, "+") {
			kinds["double_damage"]++
		} else {
			kinds[strings.SplitN(d.name, ":", 2)[0]]++
		}
		if v := h.judgeImage(ctx, c, d, r); v != nil {
			dd := *c
			dd.Damage = d.name
			cb, _ := json.Marshal(dd)
			v.Detail += "\ndamage: " + d.name + "\nreplay case with the damage pinned: " + string(cb) + "\noriginal image:\n" + string(w.buf)
			v.Stats, v.Execs = o.Stats, o.Execs
			return v
		}
	}
	for k, n := range kinds {
		o.stat("fault_"+k, n)
	}
	if o.Execs == 0 {
		o.Execs = 1
	}
	o.NonTrivial = len(ts) > 0
	o.Hash = hashStr(fmt.Sprint(c.Ts, c.Wild))
	o.Sample = map[string]any{"image": strings.Split(string(w.buf), "\n"), "damaged_images": o.Execs}
	return o
}

// judgeImage feeds one damaged image to the reader and its lines / fields to the parsers.
func (h *serialHarness) judgeImage(ctx context.Context, c *SerialCase, d damage, r *Rand) (v *Outcome) {
	mk := func(cls, f string, a ...any) *Outcome {
		return violation("C15:"+cls, f, a...)
	}
	where := "reader"
	defer func() {
		if p := recover(); p != nil {
			st := string(stackOf())
			v = mk("panic:"+panicSite(st), "panic in %s: %v\ndamaged image:\n%q\n%s", where, p, d.img, firstLines(st, 30))
		}
	}()
	// 1. the reader
	rd := &simReader{data: d.img, r: r, maxStep: c.MaxStep, eofWith: c.EOFWith, zeros: c.Zeros, failAt: d.rfail}
	dst := graphOf(ctx, nil)
	var loadInto storage.Graph = dst
	var stub *simStore
	if d.gfail > 0 {
		stub = newSimStore(nil, simStoreCfg{Faults: []FaultSpec{{Call: d.gfail - 1, Mode: "fail"}}})
		loadInto = &simGraph{s: stub, g: dst, id: "?g"}
	}
	n, rerr := bwio.ReadIntoGraph(ctx, loadInto, rd, literal.DefaultBuilder())
	got := listing(ctx, dst)
	if stub != nil && stub.failed > 0 {
		// the graph refused a write: the call fails, and the count it reports is what the graph holds - the triples
		// of the first n lines
		if rerr == nil {
			return mk("driver-error-swallowed", "the graph refused write %d but ReadIntoGraph reported success (%d triples)", d.gfail, n)
		}
		if n != len(got) {
			return mk("reader-count-after-driver-error", "the graph refused write %d: ReadIntoGraph reports %d triples, the graph holds %d\nimage:\n%q", d.gfail, n, len(got), d.img)
		}
		var pref []string
		for _, ln := range strings.Split(string(d.img), "\n") {
			if strings.TrimSpace(ln) == "" {
				continue
			}
			tr, err := triple.Parse(ln, literal.DefaultBuilder())
			if err != nil || tr == nil || len(pref) >= n {
				break
			}
			pref = append(pref, tripleKey(tr))
		}
		if !equalStrings(got, distinct(pref)) {
			extra, missing := multisetDiff(got, distinct(pref))
			return mk("reader-set-after-driver-error", "the graph does not hold exactly the triples of the first %d lines: extra=%q missing=%q\nimage:\n%q", n, extra, missing, d.img)
		}
		return nil
	}
	if rd.fired {
		// The medium failed at byte d.rfail. Nothing is demanded about how much of the delivered part was loaded, but: the
		// call fails, the reported count is the number of lines loaded, and what was loaded is exactly the triples of the
		// first n lines, all of which were delivered completely before the failure.
		if rerr == nil {
			return mk("read-error-swallowed", "the reader failed at byte %d of %d but ReadIntoGraph reported success (%d triples)", d.rfail, len(d.img), n)
		}
		var pref []string
		complete := 0
		for _, ln := range splitLines(d.img[:d.rfail]) {
			// (a last line whose separator was not delivered any more counts when its content parses: a line reader
			// hands out what it has buffered when the source fails)
			if strings.TrimSpace(string(ln)) == "" {
				continue
			}
			tr, err := triple.Parse(string(ln), literal.DefaultBuilder())
			if err != nil || tr == nil {
				break
			}
			complete++
			if complete <= n {
				pref = append(pref, tripleKey(tr))
			}
		}
		// lower bound (the documented contract of ReadIntoGraph: "The triples read till then would have also been added to
		// the graph"): every well formed line that was delivered together with its separator before the failure is loaded
		terminated := 0
		for _, ln := range splitLines(d.img[:d.rfail]) {
			if strings.TrimSpace(string(ln)) == "" {
				continue
			}
			tr, err := triple.Parse(string(ln), literal.DefaultBuilder())
			if err != nil || tr == nil || ln[len(ln)-1] != '\n' {
				break
			}
			terminated++
		}
		if n < terminated {
			return mk("reader-lost-lines-before-read-error", "ReadIntoGraph reports %d triples although %d well formed lines were delivered completely before the reader failed at byte %d\nimage:\n%q", n, terminated, d.rfail, d.img)
		}
		if n > complete {
			return mk("reader-count-after-read-error", "ReadIntoGraph reports %d triples but only %d well formed lines were delivered before the reader failed at byte %d\nimage:\n%q", n, complete, d.rfail, d.img)
		}
		if !equalStrings(got, distinct(pref)) {
			extra, missing := multisetDiff(got, distinct(pref))
			return mk("reader-set-after-read-error", "ReadIntoGraph reports %d triples but the graph does not hold exactly the triples of the first %d lines: extra=%q missing=%q\nimage:\n%q", n, n, extra, missing, d.img)
		}
		return nil
	}
	// expected: the triples of the lines before the first line the reference recogniser rejects
	var wantKeys []string
	lines := strings.Split(string(d.img), "\n")
	stopped := false
	acceptedBeyondRef := false
	for _, ln := range lines {
		if strings.TrimSpace(ln) == "" {
			continue
		}
		if !refLineOK(ln) {
			// one-sided relaxation: the implementation may accept what the reference rejects;
			// such a line is judged by the print / re-parse rule below
			tr, err := triple.Parse(ln, literal.DefaultBuilder())
			if err != nil || tr == nil {
				stopped = true
				break
			}
			acceptedBeyondRef = true
			wantKeys = append(wantKeys, tripleKey(tr))
			continue
		}
		tr, err := triple.Parse(ln, literal.DefaultBuilder())
		if err != nil {
			return mk("wellformed-line-rejected", "triple.Parse rejects a well formed line %q: %v", ln, err)
		}
		wantKeys = append(wantKeys, tripleKey(tr))
	}
	_ = acceptedBeyondRef
	if stopped != (rerr != nil) {
		return mk("reader-stop-mismatch", "a malformed line present=%v but ReadIntoGraph err=%v\ndamaged image:\n%q", stopped, rerr, d.img)
	}
	if n != len(wantKeys) {
		return mk("reader-count", "ReadIntoGraph reports %d triples, %d lines precede the first malformed one\ndamaged image:\n%q", n, len(wantKeys), d.img)
	}
	if !equalStrings(got, distinct(wantKeys)) {
		extra, missing := multisetDiff(got, distinct(wantKeys))
		return mk("reader-set", "loaded set differs: extra=%q missing=%q\ndamaged image:\n%q", extra, missing, d.img)
	}
	// 2. every line and every tab separated field through the parsers
	for _, ln := range lines {
		where = fmt.Sprintf("triple.Parse(%q)", ln)
		tr, err := triple.Parse(ln, literal.DefaultBuilder())
		if err == nil && tr == nil {
			return mk("nil-nil:triple.Parse", "%q", ln)
		}
		if err == nil {
			if cls, msg := reparse("triple", tr.String(), tripleKey(tr)); cls != "" {
				return mk(cls, "%s (accepted from %q)", msg, ln)
			}
		}
		fields := strings.Split(ln, "\t")
		// what is left of a field when a write is torn inside a delimiter
		for _, f := range append([]string{}, fields...) {
			if len(f) > 0 {
				fields = append(fields, f[:1])
			}
			if len(f) > 1 {
				fields = append(fields, f[:2], "_"+f[1:], f[1:])
			}
		}
		fields = append(fields, "_", "_:", "_:v") // torn prefixes of a blank node label
		for _, f := range fields {
			where = fmt.Sprintf("node.Parse(%q)", f)
			if nd, err := node.Parse(f); err == nil {
				if nd == nil {
					return mk("nil-nil:node.Parse", "%q", f)
				}
				if cls, msg := reparse("node", nd.String(), nodeKey(nd)); cls != "" {
					return mk(cls, "%s (accepted from %q)", msg, f)
				}
			}
			where = fmt.Sprintf("predicate.Parse(%q)", f)
			if pd, err := predicate.Parse(f); err == nil {
				if pd == nil {
					return mk("nil-nil:predicate.Parse", "%q", f)
				}
				if cls, msg := reparse("predicate", pd.String(), predKey(pd)); cls != "" {
					return mk(cls, "%s (accepted from %q)", msg, f)
				}
			}
			where = fmt.Sprintf("literal.Parse(%q)", f)
			if l, err := literal.DefaultBuilder().Parse(f); err == nil {
				if l == nil {
					return mk("nil-nil:literal.Parse", "literal %q parses to (nil, nil)", f)
				}
				if cls, msg := reparse("literal", l.String(), litKey(l)); cls != "" {
					return mk(cls, "%s (accepted from %q)", msg, f)
				}
			}
			where = fmt.Sprintf("triple.ParseObject(%q)", f)
			if ob, err := triple.ParseObject(f, literal.DefaultBuilder()); err == nil {
				if ob == nil || ob.String() == "@@@INVALID_OBJECT@@@" {
					return mk("nil-nil:triple.ParseObject", "object %q parses to an empty object without error", f)
				}
			}
		}
	}
	return nil
}

// reparse: an accepted value prints to text that is accepted again as an equal value.
func reparse(kind, text, key string) (string, string) {
	switch kind {
	case "node":
		n, err := node.Parse(text)
		if err != nil || nodeKey(n) != key {
			return "accepted-value-does-not-reparse:node", fmt.Sprintf("node prints as %q which parses to %v, %v", text, n, err)
		}
	case "predicate":
		p, err := predicate.Parse(text)
		if err != nil || predKey(p) != key {
			return "accepted-value-does-not-reparse:predicate", fmt.Sprintf("predicate prints as %q which parses to %v, %v", text, p, err)
		}
	case "literal":
		l, err := literal.DefaultBuilder().Parse(text)
		if err != nil || l == nil || litKey(l) != key {
			return "accepted-value-does-not-reparse:literal", fmt.Sprintf("literal prints as %q which parses to %v, %v", text, l, err)
		}
	case "triple":
		t, err := triple.Parse(text, literal.DefaultBuilder())
		if err != nil || tripleKey(t) != key {
			return "accepted-value-does-not-reparse:triple", fmt.Sprintf("triple prints as %q which parses to %v, %v", text, t, err)
		}
	}
	return "", ""
}
