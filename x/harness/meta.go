package harness

import (
	"encoding/json"
	"fmt"
	"sort"
	"strings"
	"testing"

	"github.com/google/badwolf/bql/table"
	"github.com/google/badwolf/triple/literal"
)

// C12 (ORDER BY / LIMIT) and C14 (results depend only on data and query
// meaning): metamorphic oracles over executions of variants of one query, each
// variant under its own drawn schedule / driver behaviour / knobs. No
// reference model and no mirrored sort: the ordered result must be a
// permutation of the unordered one, sorted under the PROPERTY's comparator,
// and a limited result a valid prefix.

func init() {
	register("C12", func() Harness { return &orderHarness{} })
	register("C14", func() Harness { return &invarHarness{} })
}

// ---------------------------------------------------------------------------
// shared helpers

type tableRows struct {
	cols []string
	rows []table.Row
	keys []string // canonical row keys (projection order)
}

func runQuery(t *testing.T, gs []GraphData, q *Query, k ExecKnobs) (*tableRows, *execResult, *Outcome) {
	text := q.render()
	er := execStatement(t, gs, text, k, nil, nil)
	if er.res == nil {
		return nil, er, infra("no result: %s", er.bubble)
	}
	if er.res.Hazard != "" {
		return nil, er, infra("scheduler hazard: %s", er.res.Hazard)
	}
	if er.res.StepCap {
		// a legitimately large cross product exhausted the step budget: not a hang (a hang is "no runnable
		// task"); the case is inconclusive
		return nil, er, &Outcome{Verdict: "ok", Detail: "step budget exhausted", Stats: map[string]int64{"inconclusive": 1, "step_budget_exhausted": 1}}
	}
	if er.panicV != "" || len(er.res.Panics) > 0 || !er.done || er.res.Deadlock {
		msg := er.panicV
		if len(er.res.Panics) > 0 {
			msg = er.res.Panics[0]
		}
		return nil, er, violation("robustness:"+panicSite(msg), "query %s: panic / hang: %s %s", text, firstLines(msg, 20), joinLines(er.res.Stuck, 6))
	}
	if er.err != nil {
		return nil, er, nil
	}
	tr := &tableRows{}
	for _, p := range q.Proj {
		tr.cols = append(tr.cols, outName(p))
	}
	tr.rows = er.tbl.Rows()
	ks, err := engineRows(er.tbl, tr.cols, nil)
	if err != nil {
		return nil, er, violation("malformed-table", "query %s: %v", text, err)
	}
	tr.keys = ks
	return tr, er, nil
}

func knobsVariant(k ExecKnobs, r *Rand) ExecKnobs {
	n := genKnobs(r)
	n.Memo = k.Memo && r.Bool()
	return n
}

// cmpCells compares two cells under the property's ordering: int64 and float64
// numerically, time anchors chronologically, every other value by its printed
// form. ok is false when the cells are of different kinds (not specified).
func cmpCells(a, b *table.Cell) (c int, ok bool) {
	ka, kb := kindOf(a), kindOf(b)
	if ka != kb {
		return 0, false
	}
	switch ka {
	case "int64":
		x, _ := a.L.Int64()
		y, _ := b.L.Int64()
		switch {
		case x < y:
			return -1, true
		case x > y:
			return 1, true
		}
		return 0, true
	case "float64":
		x, _ := a.L.Float64()
		y, _ := b.L.Float64()
		switch {
		case x < y:
			return -1, true
		case x > y:
			return 1, true
		}
		return 0, true
	case "time":
		switch {
		case a.T.Before(*b.T):
			return -1, true
		case a.T.After(*b.T):
			return 1, true
		}
		return 0, true
	case "null":
		return 0, true
	}
	return strings.Compare(a.String(), b.String()), true
}

func kindOf(c *table.Cell) string {
	switch {
	case c == nil:
		return "missing"
	case c.S != nil:
		return "string"
	case c.N != nil:
		return "node"
	case c.P != nil:
		return "predicate"
	case c.L != nil:
		if c.L.Type() == literal.Int64 {
			return "int64"
		}
		if c.L.Type() == literal.Float64 {
			return "float64"
		}
		return "literal:" + c.L.Type().String()
	case c.T != nil:
		return "time"
	}
	return "null"
}

// cmpRows compares two rows by the ORDER BY keys. ok=false: undefined (mixed kinds).
func cmpRows(a, b table.Row, order []Order) (int, bool) {
	for _, o := range order {
		c, ok := cmpCells(a[o.B], b[o.B])
		if !ok {
			return 0, false
		}
		if c != 0 {
			if o.Desc {
				c = -c
			}
			return c, true
		}
	}
	return 0, true
}

func subMultiset(a, b []string) bool { // a ⊆ b
	m := map[string]int{}
	for _, x := range b {
		m[x]++
	}
	for _, x := range a {
		m[x]--
		if m[x] < 0 {
			return false
		}
	}
	return true
}

// ---------------------------------------------------------------------------
// C12

type OrderCase struct {
	Graphs []GraphData `json:"graphs"`
	Q      *Query      `json:"q"` // without ORDER BY / LIMIT
	Order  []Order     `json:"order"`
	Limits []int       `json:"limits"`
	Bad    []string    `json:"bad,omitempty"` // limit literals that must be rejected
	Knobs  ExecKnobs   `json:"knobs"`
}

type orderHarness struct{}

func (h *orderHarness) Decode(b []byte) (any, error) {
	c := &OrderCase{}
	return c, json.Unmarshal(b, c)
}

func (h *orderHarness) Gen(r *Rand, tier string, clean bool) any {
	// numeric-heavy data: several int64 / float64 / anchors under few predicates
	u := genUniverseZ(r, r.Range(5, 14), r.Chance(0.4), false, false)
	for i := 0; i < 4; i++ {
		t := u[r.Intn(len(u))]
		u = append(u, TSpec{t[0], t[1], []int{6, 7, 8, 9, 10, 11, 26, 27, 21, 22, 33, 34, 35, 29, 30}[r.Intn(15)]})
	}
	if r.Chance(0.3) {
		// one instant written in two zones: equal as sort keys, so the next key decides
		for _, pi := range []int{3, 8} {
			for i := 0; i < 2; i++ {
				t := u[r.Intn(len(u))]
				u = append(u, TSpec{t[0], pi, t[2]})
			}
		}
	}
	if r.Bool() {
		// anchors within one second, printed with different precision
		for _, pi := range []int{2, 9, 10, 11} {
			if r.Chance(0.7) {
				t := u[r.Intn(len(u))]
				u = append(u, TSpec{t[0], pi, t[2]})
			}
		}
	}
	c := &OrderCase{Graphs: genGraphs(r, dedupSpecs(u), 2), Knobs: genKnobs(r)}
	o := sopts{qopts: qopts{clean: true, maxClauses: 2, aliases: 0.3, bounds: 0}, group: 0.25}
	if r.Chance(0.3) {
		o.maxClauses, o.aliases = 1, 0.1 // plain single clause queries: the LIMIT push-down path
	}
	st := genSelect(r, u, graphNames(c.Graphs), o)
	c.Q = st.Q
	c.Q.OrderBy, c.Q.Limit = nil, ""
	if r.Chance(0.35) {
		// HAVING is part of the base query: ORDER BY / LIMIT on top must not change which rows qualify
		col := outName(c.Q.Proj[r.Intn(len(c.Q.Proj))])
		c.Q.Having = []string{col + ` > "0"^^type:int64`, col + ` < "2"^^type:float64`, col + " = " + col, "not (" + col + " = " + col + ")",
			col + ` = "a"^^type:text`, col + ` > "1"^^type:int64`}[r.Intn(6)]
	}
	outs := []string{}
	for _, p := range c.Q.Proj {
		outs = append(outs, outName(p))
	}
	for _, i := range pickDistinct(r, len(outs), 1+r.Intn(min(2, len(outs)))) {
		c.Order = append(c.Order, Order{B: outs[i], Desc: r.Chance(0.45), Asc: r.Chance(0.2)})
	}
	if r.Chance(0.15) {
		c.Order = append(c.Order, c.Order[0]) // repeated key, same direction
	}
	switch x := r.Intn(100); {
	case x < 8:
		// ties in the first key that only the second key resolves: one instant written in two zones (equal as sort
		// keys whatever their text), several subjects and objects under it
		var ts []TSpec
		for _, si := range pickDistinct(r, V.NodesClean, 3) {
			for _, pi := range []int{3, 8, 2} {
				if r.Chance(0.75) {
					ts = append(ts, TSpec{si, pi, []int{6, 7, 8, 12, 13}[r.Intn(5)]})
				}
			}
		}
		c.Graphs = []GraphData{{Name: "?g0", Ts: dedupSpecs(ts)}}
		c.Q = &Query{From: []string{"?g0"}, Where: []QClause{{S: Tm{K: "b", B: "?s"}, P: Tm{K: "pa", ID: "p", B: "?t"}, O: Tm{K: "b", B: "?o"}}},
			Proj: []Proj{{B: "?s"}, {B: "?t"}, {B: "?o"}}}
		second := []string{"?s", "?o"}[r.Intn(2)]
		c.Order = []Order{{B: "?t", Desc: r.Chance(0.3)}, {B: second, Desc: r.Chance(0.4)}}
	case x < 16 && len(c.Q.Where) >= 1:
		// GROUP BY lists its keys in another order than SELECT, ORDER BY follows the GROUP BY list
		cl := QClause{S: Tm{K: "b", B: "?s"}, P: Tm{K: "b", B: "?p"}, O: Tm{K: "b", B: "?o"}}
		c.Q = &Query{From: graphNames(c.Graphs), Where: []QClause{cl}, GroupBy: []string{"?o", "?s"},
			Proj: []Proj{{B: "?s"}, {B: "?o"}, {B: "?p", As: "?n", Agg: "count"}}}
		c.Order = []Order{{B: "?o", Asc: r.Bool()}}
		if r.Bool() {
			c.Order = append(c.Order, Order{B: "?s", Asc: r.Bool()})
		}
	}
	if len(c.Q.GroupBy) > 0 {
		// Grouping compares anchors by their printed zone (open finding KF-C11-zone-sensitive-values): how many groups the
		// same instant in two zones forms depends on the order rows reach the reducer, so such data would make the BASE
		// of this metamorphic check unstable. Grouped queries get data without the second zone.
		for gi := range c.Graphs {
			var keep []TSpec
			for _, t := range c.Graphs[gi].Ts {
				if t[1] != 8 && t[2] != 28 {
					keep = append(keep, t)
				}
			}
			c.Graphs[gi].Ts = keep
		}
	}
	if r.Chance(0.03) {
		// a wide table (343 rows) sorted on three columns
		var ts []TSpec
		for len(ts) < 7 {
			ts = dedupSpecs(append(ts, TSpec{r.Intn(V.NodesClean), r.Intn(V.PredsClean), []int{6, 7, 8, 9, 10, 11, 12, 13}[r.Intn(8)]}))
		}
		c.Graphs = []GraphData{{Name: "?g0", Ts: ts}}
		var cls []QClause
		for i := 0; i < 3; i++ {
			cls = append(cls, QClause{S: Tm{K: "b", B: fmt.Sprintf("?s%d", i)}, P: Tm{K: "b", B: fmt.Sprintf("?p%d", i)}, O: Tm{K: "b", B: fmt.Sprintf("?o%d", i)}})
		}
		c.Q = &Query{From: []string{"?g0"}, Where: cls, Proj: []Proj{{B: "?o0"}, {B: "?s1"}, {B: "?o2"}}}
		c.Order = []Order{{B: "?o0", Desc: r.Bool()}, {B: "?s1"}, {B: "?o2", Desc: r.Bool()}}
	}
	c.Limits = []int{0, 1, 2, 3, 5, 50}
	c.Bad = []string{`"-1"^^type:int64`, `"1.5"^^type:float64`, `"2"^^type:text`, `"true"^^type:bool`}
	return c
}

func dedupSpecs(u []TSpec) []TSpec {
	seen := map[string]bool{}
	var out []TSpec
	for _, s := range u {
		if k := tripleKey(s.Triple()); !seen[k] {
			seen[k] = true
			out = append(out, s)
		}
	}
	return out
}

func (h *orderHarness) Shrink(ci any) []any {
	c := ci.(*OrderCase)
	var out []any
	for g := range c.Graphs {
		for i := range c.Graphs[g].Ts {
			d := *c
			d.Graphs = append([]GraphData{}, c.Graphs...)
			d.Graphs[g].Ts = append(append([]TSpec{}, c.Graphs[g].Ts[:i]...), c.Graphs[g].Ts[i+1:]...)
			out = append(out, &d)
		}
	}
	if len(c.Order) > 1 {
		for i := range c.Order {
			d := *c
			d.Order = append(append([]Order{}, c.Order[:i]...), c.Order[i+1:]...)
			out = append(out, &d)
		}
	}
	if len(c.Limits) > 1 {
		for i := range c.Limits {
			d := *c
			d.Limits = []int{c.Limits[i]}
			d.Bad = nil
			out = append(out, &d)
		}
	}
	if len(c.Q.Where) > 1 {
		for i := range c.Q.Where {
			d := *c
			q := *c.Q
			q.Where = append(append([]QClause{}, c.Q.Where[:i]...), c.Q.Where[i+1:]...)
			have := map[string]bool{}
			for _, b := range patternBindings(q.Where) {
				have[b] = true
			}
			ok := true
			for _, p := range q.Proj {
				ok = ok && have[p.B]
			}
			if ok {
				d.Q = &q
				out = append(out, &d)
			}
		}
	}
	if c.Knobs.Memo || c.Knobs.Pace != 0 || c.Knobs.Preempt != 0 || c.Knobs.Permute {
		d := *c
		d.Knobs.Memo, d.Knobs.Pace, d.Knobs.Preempt, d.Knobs.Permute = false, 0, 0, false
		out = append(out, &d)
	}
	return out
}

func orderFeatures(c *OrderCase, rows []table.Row) string {
	f := map[string]bool{}
	if len(c.Q.Where) == 1 && len(c.Q.GroupBy) == 0 {
		f["single-clause"] = true
	}
	if len(c.Q.GroupBy) > 0 {
		f["group"] = true
	}
	for _, o := range c.Order {
		if o.Desc {
			f["desc"] = true
		}
		for _, r := range rows {
			f["key-"+strings.SplitN(kindOf(r[o.B]), ":", 2)[0]] = true
		}
	}
	var fs []string
	for k := range f {
		fs = append(fs, k)
	}
	sort.Strings(fs)
	return strings.Join(fs, "+")
}

func (h *orderHarness) Run(t *testing.T, ci any) *Outcome {
	c := ci.(*OrderCase)
	o := okOutcome()
	kr := NewRand(c.Knobs.Sched, 12)
	var dets []string
	base := *c.Q
	base.OrderBy, base.Limit = nil, ""
	r0, er, bad := runQuery(t, c.Graphs, &base, c.Knobs)
	o.Execs = 1
	if bad != nil {
		if bad.Verdict == "ok" {
			return bad
		}
		bad.Class = "C12:" + bad.Class
		return bad
	}
	if er.err != nil {
		o.stat("base_query_rejected", 1)
		return o // nothing to order
	}
	dets = append(dets, detHash(er.res.Log, er.tapeRec, fmt.Sprint(r0.keys)))
	o.stat("steps", er.res.Steps)
	mk := func(cls, f string, a ...any) *Outcome {
		v := violation("C12:"+cls, f, a...)
		v.Detail = fmt.Sprintf("base query: %s\norder by: %s\ndata: %s\n%s", base.render(), jsonStr(c.Order), jsonStr(renderGraphs(c.Graphs)), v.Detail)
		v.Stats, v.Execs = o.Stats, o.Execs
		return v
	}
	N := len(r0.keys)
	ordered := base
	ordered.OrderBy = c.Order
	r1, er1, bad := runQuery(t, c.Graphs, &ordered, knobsVariant(c.Knobs, kr))
	o.Execs++
	if bad != nil {
		if bad.Verdict == "ok" {
			return bad
		}
		bad.Class = "C12:" + bad.Class
		return bad
	}
	if er1.err != nil {
		return mk("order-by-rejected:"+errHead(er1.err.Error()), "adding ORDER BY made the query fail: %v", er1.err)
	}
	dets = append(dets, detHash(er1.res.Log, er1.tapeRec, fmt.Sprint(r1.keys)))
	feats := orderFeatures(c, r1.rows)
	// (a) permutation
	if !equalStrings(sortedCopy(r0.keys), sortedCopy(r1.keys)) {
		extra, missing := multisetDiff(sortedCopy(r1.keys), sortedCopy(r0.keys))
		return mk("not-a-permutation:"+feats, "ORDER BY changed which rows qualify: extra=%q missing=%q", extra, missing)
	}
	// (b) sorted under the property's comparator
	undefined := false
	for i := 0; i+1 < len(r1.rows); i++ {
		cmp, ok := cmpRows(r1.rows[i], r1.rows[i+1], c.Order)
		if !ok {
			undefined = true
			continue
		}
		if cmp > 0 {
			return mk("not-sorted:"+feats, "rows %d and %d are out of order: %s  then  %s\nordered result: %q", i, i+1, r1.keys[i], r1.keys[i+1], r1.keys)
		}
	}
	if undefined {
		o.stat("mixed_kind_keys", 1)
	}
	// (c) ORDER BY + LIMIT n: a valid prefix; (d) LIMIT n alone
	for _, n := range c.Limits {
		lit := fmt.Sprintf("\"%d\"^^type:int64", n)
		ql := ordered
		ql.Limit = lit
		r2, er2, bad := runQuery(t, c.Graphs, &ql, knobsVariant(c.Knobs, kr))
		o.Execs++
		if bad != nil {
			if bad.Verdict == "ok" {
				return bad
			}
			bad.Class = "C12:" + bad.Class
			return bad
		}
		if er2.err != nil {
			return mk("limit-rejected:"+errHead(er2.err.Error()), "LIMIT %d made the query fail: %v", n, er2.err)
		}
		dets = append(dets, detHash(er2.res.Log, er2.tapeRec, fmt.Sprint(r2.keys)))
		want := min(n, N)
		if len(r2.keys) != want {
			return mk("limit-count:ordered:"+feats, "ORDER BY + LIMIT %d returned %d rows, the query has %d", n, len(r2.keys), N)
		}
		if !subMultiset(r2.keys, r1.keys) {
			return mk("limit-foreign-rows:ordered:"+feats, "ORDER BY + LIMIT %d returned rows the query does not have: %q vs %q", n, r2.keys, r1.keys)
		}
		if len(r2.rows) > 0 && !undefined {
			for i := 0; i+1 < len(r2.rows); i++ {
				if cmp, ok := cmpRows(r2.rows[i], r2.rows[i+1], c.Order); ok && cmp > 0 {
					return mk("limit-not-sorted:"+feats, "ORDER BY + LIMIT %d is not sorted: %q", n, r2.keys)
				}
			}
			// every excluded row must not sort before the last included one
			last := r2.rows[len(r2.rows)-1]
			left := map[string]int{}
			for _, k := range r2.keys {
				left[k]++
			}
			for i, k := range r1.keys {
				if left[k] > 0 {
					left[k]--
					continue
				}
				if cmp, ok := cmpRows(r1.rows[i], last, c.Order); ok && cmp < 0 {
					return mk("limit-not-first-rows:"+feats, "ORDER BY + LIMIT %d = %q omits %s, which sorts before its last row; full ordered result: %q", n, r2.keys, k, r1.keys)
				}
			}
		}
		q3 := base
		q3.Limit = lit
		r3, er3, bad := runQuery(t, c.Graphs, &q3, knobsVariant(c.Knobs, kr))
		o.Execs++
		if bad != nil {
			if bad.Verdict == "ok" {
				return bad
			}
			bad.Class = "C12:" + bad.Class
			return bad
		}
		if er3.err != nil {
			return mk("limit-rejected:"+errHead(er3.err.Error()), "LIMIT %d made the query fail: %v", n, er3.err)
		}
		dets = append(dets, detHash(er3.res.Log, er3.tapeRec, fmt.Sprint(r3.keys)))
		if len(r3.keys) != want {
			return mk("limit-count:unordered:"+feats, "LIMIT %d returned %d rows, the query has %d", n, len(r3.keys), N)
		}
		if !subMultiset(r3.keys, r0.keys) {
			return mk("limit-foreign-rows:unordered:"+feats, "LIMIT %d returned rows the query does not have: %q vs %q", n, r3.keys, r0.keys)
		}
	}
	// (e) limits that are not a non-negative int64 are rejected
	for _, lit := range c.Bad {
		qb := base
		qb.Limit = lit
		_, erb, bad := runQuery(t, c.Graphs, &qb, c.Knobs)
		o.Execs++
		if bad != nil {
			if bad.Verdict == "ok" {
				return bad
			}
			bad.Class = "C12:" + bad.Class
			return bad
		}
		if erb.err == nil {
			return mk("bad-limit-accepted", "LIMIT %s was accepted", lit)
		}
	}
	o.NonTrivial = N >= 2
	o.Hash = hashStr(base.render() + jsonStr(c.Order) + jsonStr(c.Graphs))
	o.Det = hashStr(strings.Join(dets, ""))
	o.Sample = map[string]any{"query": ordered.render(), "graphs": renderGraphs(c.Graphs), "rows": N, "ordered": r1.keys}
	return o
}

// ---------------------------------------------------------------------------
// C14

type InvarCase struct {
	U     []TSpec   `json:"u"`     // the data
	Extra []TSpec   `json:"extra"` // additional triples for the monotonicity check
	Q     *Query    `json:"q"`     // FROM is rewritten per variant
	Order []Order   `json:"order,omitempty"`
	Knobs ExecKnobs `json:"knobs"`
	Reps  int       `json:"reps"`
	VSeed uint64    `json:"vseed"`
}

type invarHarness struct{}

func (h *invarHarness) Decode(b []byte) (any, error) {
	c := &InvarCase{}
	return c, json.Unmarshal(b, c)
}

func (h *invarHarness) Gen(r *Rand, tier string, clean bool) any {
	u := genUniverseZ(r, r.Range(4, 11), r.Chance(0.3), false, false)
	c := &InvarCase{U: u, Knobs: genKnobs(r), Reps: 4, VSeed: r.U64()}
	for i := 0; i < 3; i++ {
		c.Extra = append(c.Extra, TSpec{r.Intn(V.NodesClean), r.Intn(V.PredsClean), r.Intn(V.ObjsClean)})
	}
	o := sopts{qopts: qopts{clean: true, maxClauses: 3, aliases: 0.25, bounds: 0.3, crossKind: 0.1, optional: 0.15}, group: 0.15, global: 0.25}
	st := genSelect(r, u, []string{"?g0"}, o)
	c.Q = st.Q
	c.Q.From = []string{"?g0"}
	if r.Chance(0.1) {
		// a clause all of whose bindings are bound by the other clause, under global time bounds: whichever strategy the
		// planner picks for it (existence test, per-row fetch, full fetch + join) the bounds apply
		pi := []int{2, 3, 4, 5}[r.Intn(4)]
		for i := 0; i < 2; i++ {
			t := u[r.Intn(len(u))]
			c.U = dedupSpecs(append(c.U, TSpec{t[0], pi, t[2]}))
		}
		c.Q = &Query{From: []string{"?g0"}, Where: []QClause{{S: Tm{K: "b", B: "?s"}, P: Tm{K: "b", B: "?p"}, O: Tm{K: "b", B: "?o"}},
			{S: Tm{K: "b", B: "?s"}, P: Tm{K: "p", I: pi}, O: Tm{K: "b", B: "?o"}}}, Proj: []Proj{{B: "?s"}, {B: "?p"}, {B: "?o"}}}
		a := Anchors[r.Intn(len(Anchors))].UnixNano()
		if r.Bool() {
			c.Q.Before = &a
		} else {
			c.Q.After = &a
		}
	}
	if r.Chance(0.12) {
		// time bounds taken from bindings of an earlier clause: every row has its own window
		for _, pi := range []int{2, 3, 4, 9, 10} {
			if r.Chance(0.7) {
				t := u[r.Intn(len(u))]
				c.U = dedupSpecs(append(c.U, TSpec{t[0], pi, t[2]}))
			}
		}
		second := QClause{S: Tm{K: "b", B: "?s2"}, P: Tm{K: "pb", ID: "p"}, O: Tm{K: "b", B: "?o2"}}
		switch r.Intn(3) {
		case 0:
			second.P.LoB = "?t"
		case 1:
			second.P.HiB = "?t"
		default:
			second.P.LoB, second.P.HiB = "?t", "?t"
		}
		c.Q = &Query{From: []string{"?g0"}, Where: []QClause{{S: Tm{K: "b", B: "?s"}, P: Tm{K: "pa", ID: "p", B: "?t"}, O: Tm{K: "b", B: "?o"}}, second},
			Proj: []Proj{{B: "?s"}, {B: "?t"}, {B: "?s2"}, {B: "?o2"}}}
	}
	if r.Chance(0.03) {
		// a wide intermediate table: three clauses that share nothing over 7 triples give 343 rows (code paths that only
		// start at a few hundred rows - parallel sorts, batching - are otherwise never entered)
		for len(c.U) < 7 {
			c.U = dedupSpecs(append(c.U, TSpec{r.Intn(V.NodesClean), r.Intn(V.PredsClean), r.Intn(V.ObjsClean)}))
		}
		c.U = c.U[:7]
		var cls []QClause
		var prj []Proj
		for i := 0; i < 3; i++ {
			cls = append(cls, QClause{S: Tm{K: "b", B: fmt.Sprintf("?s%d", i)}, P: Tm{K: "b", B: fmt.Sprintf("?p%d", i)}, O: Tm{K: "b", B: fmt.Sprintf("?o%d", i)}})
			prj = append(prj, Proj{B: fmt.Sprintf("?s%d", i)}, Proj{B: fmt.Sprintf("?p%d", i)}, Proj{B: fmt.Sprintf("?o%d", i)})
		}
		// only the subject columns are selected and all of them are sort keys: single-kind key columns, so the row
		// SEQUENCE is determined and compared across processor counts
		c.Q = &Query{From: []string{"?g0"}, Where: cls, Proj: []Proj{prj[0], prj[3], prj[6]}}
		c.Reps = 2
		c.Order = []Order{{B: "?s0", Desc: r.Bool()}, {B: "?s1"}, {B: "?s2", Desc: r.Bool()}}
		return c
	}
	if r.Chance(0.4) {
		c.Order = nil
		for _, p := range c.Q.Proj { // ORDER BY all outputs: a total order on distinct rows
			c.Order = append(c.Order, Order{B: outName(p), Desc: r.Chance(0.3)})
		}
		if r.Chance(0.3) && len(c.Order) > 1 {
			c.Order = append(c.Order, c.Order[0]) // repeated key
		}
	}
	return c
}

func (h *invarHarness) Shrink(ci any) []any {
	c := ci.(*InvarCase)
	var out []any
	for i := range c.U {
		d := *c
		d.U = append(append([]TSpec{}, c.U[:i]...), c.U[i+1:]...)
		out = append(out, &d)
	}
	if len(c.Q.Where) > 1 {
		for i := range c.Q.Where {
			d := *c
			q := *c.Q
			q.Where = append(append([]QClause{}, c.Q.Where[:i]...), c.Q.Where[i+1:]...)
			have := map[string]bool{}
			for _, b := range patternBindings(q.Where) {
				have[b] = true
			}
			ok := true
			for _, p := range q.Proj {
				ok = ok && have[p.B]
			}
			if ok {
				d.Q = &q
				out = append(out, &d)
			}
		}
	}
	if len(c.Order) > 0 {
		d := *c
		d.Order = nil
		out = append(out, &d)
	}
	return out
}

// renameBindings applies a consistent renaming to every binding of a query.
func renameBindings(q *Query, f func(string) string) *Query {
	n := *q
	rn := func(s string) string {
		if s == "" {
			return ""
		}
		return f(s)
	}
	rt := func(t Tm) Tm {
		if t.K == "b" || t.K == "pa" {
			t.B = rn(t.B)
		}
		t.As, t.Ty, t.IDb, t.At, t.LoB, t.HiB = rn(t.As), rn(t.Ty), rn(t.IDb), rn(t.At), rn(t.LoB), rn(t.HiB)
		return t
	}
	n.Where = nil
	for _, c := range q.Where {
		n.Where = append(n.Where, QClause{Opt: c.Opt, S: rt(c.S), P: rt(c.P), O: rt(c.O)})
	}
	n.Proj = nil
	for _, p := range q.Proj {
		n.Proj = append(n.Proj, Proj{B: rn(p.B), As: rn(p.As), Agg: p.Agg})
	}
	n.GroupBy = nil
	for _, g := range q.GroupBy {
		n.GroupBy = append(n.GroupBy, rn(g))
	}
	n.OrderBy = nil
	for _, o := range q.OrderBy {
		n.OrderBy = append(n.OrderBy, Order{B: rn(o.B), Desc: o.Desc, Asc: o.Asc})
	}
	return &n
}

func (h *invarHarness) Run(t *testing.T, ci any) *Outcome {
	c := ci.(*InvarCase)
	o := okOutcome()
	vr := NewRand(c.VSeed)
	one := []GraphData{{Name: "?g0", Ts: c.U}}
	q := *c.Q
	q.From = []string{"?g0"}
	q.OrderBy = c.Order
	q.Limit = ""
	hasOpt, hasAgg := false, len(q.GroupBy) > 0
	for _, cl := range q.Where {
		hasOpt = hasOpt || cl.Opt
	}
	var dets []string
	base, er, bad := runQuery(t, one, &q, c.Knobs)
	o.Execs = 1
	if bad != nil {
		if bad.Verdict == "ok" {
			return bad
		}
		bad.Class = "C14:" + bad.Class
		return bad
	}
	if er.err != nil {
		o.stat("base_query_rejected", 1)
		return o
	}
	o.stat("steps", er.res.Steps)
	dets = append(dets, detHash(er.res.Log, er.tapeRec, fmt.Sprint(base.keys)))
	// the sequence is determined only when every ORDER BY key column holds values of one kind
	// (C12 specifies the order for such columns only)
	total := len(c.Order) > 0
	for _, ok := range c.Order {
		kinds := map[string]bool{}
		for _, r := range base.rows {
			kinds[kindOf(r[ok.B])] = true
		}
		if len(kinds) > 1 {
			total = false
		}
	}
	mk := func(cls, f string, a ...any) *Outcome {
		v := violation("C14:"+cls, f, a...)
		v.Detail = fmt.Sprintf("query: %s\ndata: %q\n%s", q.render(), specStrings(c.U), v.Detail)
		v.Stats, v.Execs = o.Stats, o.Execs
		return v
	}
	feat := ""
	if hasOpt {
		feat += "+optional"
	}
	if hasAgg {
		feat += "+group"
	}
	if total {
		feat += "+order"
	}
	compare := func(what string, gs []GraphData, vq *Query, k ExecKnobs, colsRenamed bool) *Outcome {
		got, erv, bad := runQuery(t, gs, vq, k)
		o.Execs++
		if bad != nil {
			if bad.Verdict == "ok" {
				return bad
			}
			bad.Class = "C14:" + bad.Class
			return bad
		}
		if erv.err != nil {
			return mk(what+":variant-rejected:"+errHead(erv.err.Error()), "the variant %s failed: %v\nvariant query: %s", what, erv.err, vq.render())
		}
		dets = append(dets, detHash(erv.res.Log, erv.tapeRec, fmt.Sprint(got.keys)))
		if total {
			if !equalStrings(got.keys, base.keys) {
				if equalStrings(sortedCopy(got.keys), sortedCopy(base.keys)) {
					return mk(what+":sequence-differs"+feat, "same rows, different sequence although ORDER BY lists every output column\nbase:    %q\nvariant: %q\nvariant query: %s", base.keys, got.keys, vq.render())
				}
				extra, missing := multisetDiff(sortedCopy(got.keys), sortedCopy(base.keys))
				return mk(what+":rows-differ"+feat, "variant query: %s\nvariant knobs: %s injected: %v\nextra=%q missing=%q", vq.render(), jsonStr(k), erv.fired, extra, missing)
			}
			return nil
		}
		if !equalStrings(sortedCopy(got.keys), sortedCopy(base.keys)) {
			extra, missing := multisetDiff(sortedCopy(got.keys), sortedCopy(base.keys))
			return mk(what+":rows-differ"+feat, "extra=%q missing=%q\nbase: %q\nvariant: %q\nvariant query: %s", extra, missing, base.keys, got.keys, vq.render())
		}
		return nil
	}
	// repeated execution + other schedules / knobs / processor counts
	for i := 0; i < c.Reps; i++ {
		k := c.Knobs
		if i > 0 {
			k = knobsVariant(c.Knobs, vr)
		}
		if v := compare("rerun", one, &q, k, false); v != nil {
			return v
		}
	}
	// consistent renaming of bindings
	rq := renameBindings(&q, func(s string) string { return "?z" + strings.TrimPrefix(s, "?") + "x" })
	if v := compare("rename", one, rq, knobsVariant(c.Knobs, vr), true); v != nil {
		return v
	}
	// data partitioned over 2-3 graphs listed in FROM
	for parts := 2; parts <= 3; parts++ {
		gs := make([]GraphData, parts)
		var names []string
		for i := range gs {
			gs[i].Name = fmt.Sprintf("?g%d", i)
			names = append(names, gs[i].Name)
		}
		for _, s := range c.U {
			k := vr.Intn(parts)
			gs[k].Ts = append(gs[k].Ts, s)
		}
		pq := q
		pq.From = names
		if v := compare(fmt.Sprintf("partition-%d", parts), gs, &pq, knobsVariant(c.Knobs, vr), false); v != nil {
			return v
		}
	}
	// clause order (no OPTIONAL)
	if !hasOpt && len(q.Where) > 1 {
		for i := 0; i < 2; i++ {
			pq := q
			pq.Where = append([]QClause{}, q.Where...)
			for j := len(pq.Where) - 1; j > 0; j-- {
				k := vr.Intn(j + 1)
				pq.Where[j], pq.Where[k] = pq.Where[k], pq.Where[j]
			}
			what := "clause-order"
			if boundBeforeProducer(q.Where) != boundBeforeProducer(pq.Where) {
				// a clause whose time bound is a binding is written before the clause that binds it
				what = "clause-order:bound-binding-before-producer"
			}
			if v := compare(what, one, &pq, knobsVariant(c.Knobs, vr), false); v != nil {
				return v
			}
		}
	}
	// monotonicity: more data never removes rows (no OPTIONAL, aggregate, LIMIT)
	if !hasOpt && !hasAgg {
		more := []GraphData{{Name: "?g0", Ts: dedupSpecs(append(append([]TSpec{}, c.U...), c.Extra...))}}
		got, erv, bad := runQuery(t, more, &q, knobsVariant(c.Knobs, vr))
		o.Execs++
		if bad != nil {
			if bad.Verdict == "ok" {
				return bad
			}
			bad.Class = "C14:" + bad.Class
			return bad
		}
		if erv.err != nil {
			return mk("superset:variant-rejected:"+errHead(erv.err.Error()), "the query failed on a superset of the data: %v", erv.err)
		}
		if !subMultiset(distinct(base.keys), distinct(got.keys)) {
			_, missing := multisetDiff(distinct(got.keys), distinct(base.keys))
			return mk("superset:rows-lost"+feat, "adding triples %q removed rows %q", specStrings(c.Extra), missing)
		}
	}
	o.NonTrivial = len(base.keys) > 0
	o.Hash = hashStr(q.render() + fmt.Sprint(c.U))
	o.Det = hashStr(strings.Join(dets, ""))
	o.Sample = map[string]any{"query": q.render(), "data": specStrings(c.U), "rows": len(base.keys), "variants_run": o.Execs}
	return o
}

// boundBeforeProducer reports whether some clause takes a time bound from a
// binding ("id"@[?lo,?hi]) that no earlier clause binds.
func boundBeforeProducer(cs []QClause) bool {
	seen := map[string]bool{}
	for _, c := range cs {
		for _, t := range []Tm{c.P, c.O} {
			for _, b := range []string{t.LoB, t.HiB} {
				if b != "" && !seen[b] {
					return true
				}
			}
		}
		for _, b := range clauseBindings(c) {
			seen[b] = true
		}
	}
	return false
}

func specStrings(u []TSpec) []string {
	var out []string
	for _, s := range u {
		out = append(out, s.String())
	}
	return out
}
