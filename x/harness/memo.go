package harness

import (
	"time"
	"context"
	"encoding/json"
	"fmt"
	"sort"
	"strings"
	"testing"

	"github.com/google/badwolf/storage"
	"github.com/google/badwolf/storage/memoization"
	"github.com/google/badwolf/storage/memory"
	"github.com/google/badwolf/triple"
	"github.com/google/badwolf/xverif/sim"
)

// C19: the memoizing store must be observationally identical to the store it
// wraps. Instrumented memoization over instrumented memory; the harness keeps
// a direct reference to the wrapped store.
//
// Sequential configuration: histories of reads (all lookups with options incl.
// paging offsets, Exist) and writes through 1-3 handles of one graph; every
// read is repeated on the wrapped store directly and must deliver the same
// sequence.
//
// Concurrent configuration: one writer and one or two readers under the seeded
// scheduler. The writer's writes define the states S0,S1,... (a RemoveTriples
// batch contributes one state per triple). A read invoked after the writes up
// to S_i returned and returning before the writes after S_j were invoked must
// answer like the wrapped store in some S_k, i <= k <= j.

func init() { register("C19", func() Harness { return &memoHarness{} }) }

type MemoOp struct {
	K   string      `json:"k"` // add | rm | exist | lookup
	H   int         `json:"h"` // handle index
	Ts  []int       `json:"ts,omitempty"`
	L   *LookupCall `json:"l,omitempty"`
	Opt *OptSpec    `json:"opt,omitempty"`
	F   *FaultSpec  `json:"f,omitempty"` // faulty-driver configuration: the wrapped driver fails the next call this op makes
}

type MemoCase struct {
	U       []TSpec    `json:"u"`
	Pre     []int      `json:"pre"`
	NH      int        `json:"nh"`            // number of handles obtained from the wrapper
	Ops     []MemoOp   `json:"ops,omitempty"` // sequential configuration
	Clients [][]MemoOp `json:"clients,omitempty"` // concurrent configuration: client 0 is the only writer
	Cap     int        `json:"cap"`
	Sched   uint64     `json:"sched"`
	Preempt int        `json:"preempt"`
	PMean   int        `json:"pmean"`
	Tape    []uint32   `json:"tape,omitempty"`
	SlowWriteS int     `json:"slowwrites,omitempty"` // concurrent configuration: the wrapped driver takes this many simulated seconds per write
	Faulty  bool       `json:"faulty,omitempty"` // sequential configuration over a wrapped driver with transient failures (simstore between memoizer and memory)
	fine    bool       // generation only: sub-second windows over triples anchored within one second
}

type memoHarness struct{}

func (h *memoHarness) Decode(b []byte) (any, error) {
	c := &MemoCase{}
	return c, json.Unmarshal(b, c)
}

func genMemoLookup(r *Rand, c *MemoCase, pool []LookupCall, paging bool) MemoOp {
	op := MemoOp{K: "lookup"}
	lc := pool[r.Intn(len(pool))]
	op.L = &lc
	if r.Chance(0.5) || c.fine {
		os := OptSpec{}
		k := r.Intn(5)
		if c.fine && r.Chance(0.7) {
			k = 4
		}
		switch k {
		case 4:
			// bounds that differ below one second (anchors T1, T1+250ms, T1+255ms, T1+500ms exist under id "p")
			fine := []int64{0, 100, 252, 300, 600}
			lo := T1.UnixNano() + fine[r.Intn(len(fine))]*1e6
			os.Lo = &lo
			if r.Bool() {
				hi := T1.UnixNano() + fine[r.Intn(len(fine))]*1e6
				os.Hi = &hi
			}
		case 0:
			lo := Anchors[1+r.Intn(3)].UnixNano()
			os.Lo = &lo
		case 1:
			os.FOp, os.FField = []string{"latest", "isImmutable", "isTemporal"}[r.Intn(3)], "predicate"
		case 2:
			os.Latest = true
		}
		if paging && r.Chance(0.6) {
			os.Max, os.Off = 1+r.Intn(2), r.Intn(3)
		}
		op.Opt = &os
	}
	return op
}

func (h *memoHarness) Gen(r *Rand, tier string, clean bool) any {
	c := &MemoCase{}
	c.U = genUniverse(r, r.Range(4, 8), r.Chance(0.3), false)
	for j := range c.U {
		if r.Chance(0.4) {
			c.Pre = append(c.Pre, j)
		}
	}
	var fineBase *TSpec
	if r.Chance(0.4) {
		// triples anchored within one second, for sub-second windows
		base := c.U[r.Intn(len(c.U))]
		fineBase, c.fine = &base, true
		for _, pi := range []int{2, 9, 10, 11} {
			nt := TSpec{base[0], pi, base[2]}
			dup := false
			for _, x := range c.U {
				dup = dup || tripleKey(x.Triple()) == tripleKey(nt.Triple())
			}
			if !dup {
				c.U = append(c.U, nt)
				c.Pre = append(c.Pre, len(c.U)-1)
			}
		}
	}
	c.NH = 1
	if r.Chance(0.5) {
		c.NH = 2 + r.Intn(2)
	}
	c.Cap = []int{0, 0, 1, 8}[r.Intn(4)]
	c.Sched = r.U64()
	// a small pool of lookups that are repeated (so caches are hit). In
	// "aligned" mode the pool asks different methods about the same node used
	// as subject and as object, so that cache keys of different methods meet.
	var pool []LookupCall
	if r.Bool() {
		u := c.U[r.Intn(len(c.U))]
		if u[0] < 4 {
			nt := TSpec{c.U[r.Intn(len(c.U))][0], u[1], u[0]}
			dup := false
			for _, x := range c.U {
				if tripleKey(x.Triple()) == tripleKey(nt.Triple()) {
					dup = true
				}
			}
			if !dup {
				c.U = append(c.U, nt)
				c.Pre = append(c.Pre, len(c.U)-1)
			}
			for _, m := range pickDistinct(r, NumLookups, 4) {
				pool = append(pool, LookupCall{M: m, S: u[0], P: u[1], O: u[0]})
			}
		}
	}
	if fineBase != nil {
		b := *fineBase
		pool = []LookupCall{{M: MTriplesS, S: b[0], P: b[1], O: b[2]}, {M: MTriples, S: b[0], P: b[1], O: b[2]}, {M: MPredsS, S: b[0], P: b[1], O: b[2]}}
		if r.Bool() {
			pool = pool[:1+r.Intn(2)]
		}
	}
	for len(pool) < 3 && fineBase == nil {
		u := c.U[r.Intn(len(c.U))]
		m := r.Intn(NumLookups)
		if r.Chance(0.3) {
			m = MTriples
		}
		pool = append(pool, LookupCall{M: m, S: u[0], P: u[1], O: u[2]})
	}
	write := func(hd int) MemoOp {
		op := MemoOp{K: "add", H: hd}
		if r.Chance(0.45) {
			op.K = "rm"
		}
		for _, k := range pickDistinct(r, len(c.U), r.Range(1, 3)) {
			op.Ts = append(op.Ts, k)
		}
		return op
	}
	read := func(hd int, paging bool) MemoOp {
		if r.Chance(0.2) {
			return MemoOp{K: "exist", H: hd, Ts: []int{r.Intn(len(c.U))}}
		}
		op := genMemoLookup(r, c, pool, paging)
		op.H = hd
		return op
	}
	if r.Chance(0.55) {
		n := r.Range(3, 14)
		c.Faulty = r.Chance(0.3)
		for i := 0; i < n; i++ {
			hd := r.Intn(c.NH)
			var op MemoOp
			if r.Chance(0.3) {
				op = write(hd)
				if c.Faulty && r.Chance(0.15) {
					op.F = &FaultSpec{Mode: "fail"}
				}
			} else {
				op = read(hd, true)
				if c.Faulty && r.Chance(0.35) {
					switch {
					case op.K == "exist":
						op.F = &FaultSpec{Mode: "fail"}
					case r.Chance(0.25):
						// the caller gives up while the wrapped lookup is streaming: its context is cancelled right before
						// element j leaves the wrapped driver
						op.F = &FaultSpec{Mode: "cancel", J: r.Range(1, 3)}
					case r.Chance(0.25):
						// the caller gives up after having received j elements - whether they come from the wrapped driver
						// or from the memo
						op.F = &FaultSpec{Mode: "giveup", J: r.Range(1, 3)}
					case r.Chance(0.3):
						op.F = &FaultSpec{Mode: "before"}
					default:
						op.F = &FaultSpec{Mode: "after", J: r.Range(1, 3)}
					}
				}
			}
			c.Ops = append(c.Ops, op)
		}
		return c
	}
	// concurrent: client 0 writes (and may read), the others only read
	nr := 1 + r.Intn(2)
	w := []MemoOp{}
	for i, n := 0, r.Range(1, 3); i < n; i++ {
		w = append(w, write(0))
	}
	c.Clients = append(c.Clients, w)
	for k := 0; k < nr; k++ {
		hd := 0
		if c.NH > 1 {
			hd = 1 + r.Intn(c.NH-1)
		}
		var ops []MemoOp
		for i, n := 0, r.Range(2, 4); i < n; i++ {
			ops = append(ops, read(hd, false))
		}
		c.Clients = append(c.Clients, ops)
	}
	if r.Chance(0.35) {
		// hot spot: every reader repeats the same read, about a triple the writer adds or removes, through the
		// writer's handle - in-flight reads of several readers meet each other and the write
		x := w[0].Ts[0]
		hot := MemoOp{K: "exist", Ts: []int{x}}
		if r.Chance(0.4) {
			hot = MemoOp{K: "lookup", L: &LookupCall{M: r.Intn(NumLookups), S: c.U[x][0], P: c.U[x][1], O: c.U[x][2]}}
		}
		for len(c.Clients) < 3 {
			c.Clients = append(c.Clients, nil)
		}
		for k := 1; k < len(c.Clients); k++ {
			c.Clients[k] = nil
			for i, n := 0, r.Range(2, 4); i < n; i++ {
				c.Clients[k] = append(c.Clients[k], hot)
			}
		}
	}
	if r.Chance(0.15) {
		c.SlowWriteS = []int{1, 6, 20}[r.Intn(3)] // a wrapped driver whose writes are slow, not failing
	}
	c.Preempt = r.Intn(5)
	c.PMean = []int{10, 30, 80}[r.Intn(3)]
	return c
}

func (h *memoHarness) Shrink(ci any) []any {
	c := ci.(*MemoCase)
	var out []any
	if len(c.Clients) == 0 {
		for i := range c.Ops {
			d := *c
			d.Ops = append(append([]MemoOp{}, c.Ops[:i]...), c.Ops[i+1:]...)
			out = append(out, &d)
		}
		if len(c.Pre) > 0 {
			d := *c
			d.Pre = nil
			out = append(out, &d)
		}
		for i, op := range c.Ops {
			if op.F != nil {
				d := *c
				d.Ops = append([]MemoOp{}, c.Ops...)
				nop := op
				nop.F = nil
				d.Ops[i] = nop
				out = append(out, &d)
			}
		}
		for i, op := range c.Ops {
			if op.Opt != nil {
				d := *c
				d.Ops = append([]MemoOp{}, c.Ops...)
				nop := op
				nop.Opt = nil
				d.Ops[i] = nop
				out = append(out, &d)
			}
		}
		return out
	}
	cp := func() *MemoCase {
		d := *c
		d.Clients = make([][]MemoOp, len(c.Clients))
		for i := range c.Clients {
			d.Clients[i] = append([]MemoOp{}, c.Clients[i]...)
		}
		d.Tape = nil
		return &d
	}
	for i := 1; i < len(c.Clients); i++ {
		if len(c.Clients) > 2 {
			d := cp()
			d.Clients = append(d.Clients[:i], d.Clients[i+1:]...)
			out = append(out, d)
		}
	}
	for i := range c.Clients {
		for j := range c.Clients[i] {
			d := cp()
			d.Clients[i] = append(d.Clients[i][:j], d.Clients[i][j+1:]...)
			out = append(out, d)
		}
	}
	n := len(out)
	for i := 0; i < n; i++ {
		for s := uint64(1); s <= 3; s++ {
			d := *(out[i].(*MemoCase))
			d.Sched = c.Sched + s*7919
			out = append(out, &d)
		}
	}
	if c.Preempt > 0 {
		d := cp()
		d.Preempt--
		out = append(out, d)
	}
	return out
}

func (op MemoOp) desc(c *MemoCase) string {
	s := fmt.Sprintf("%s h%d", op.K, op.H)
	for _, t := range op.Ts {
		s += fmt.Sprintf(" #%d", t)
	}
	if op.L != nil {
		s += " " + op.L.String()
	}
	if op.Opt != nil {
		s += " " + jsonStr(op.Opt)
	}
	if op.F != nil {
		s += " [driver fails: " + op.F.Mode + fmt.Sprintf(" j=%d]", op.F.J)
	}
	return s
}

func (h *memoHarness) Run(t *testing.T, ci any) *Outcome {
	c := ci.(*MemoCase)
	if len(c.Clients) > 0 {
		return h.runConcurrent(t, c)
	}
	return h.runSequential(t, c)
}

func memoSetup(ctx context.Context, c *MemoCase, uni []*triple.Triple) (inner storage.Graph, handles []storage.Graph, ss *simStore) {
	in := memory.NewStore()
	var wrapped storage.Store = in
	if c.Faulty {
		ss = newSimStore(in, simStoreCfg{})
		wrapped = ss
	}
	if c.SlowWriteS > 0 && len(c.Clients) > 0 {
		ss = newSimStore(in, simStoreCfg{SlowWrites: time.Duration(c.SlowWriteS) * time.Second, Transparent: true})
		wrapped = ss
	}
	st := memoization.New(wrapped)
	g0, err := st.NewGraph(ctx, "?g")
	if err != nil {
		panic(err)
	}
	handles = append(handles, g0)
	for i := 1; i < c.NH; i++ {
		g, err := st.Graph(ctx, "?g")
		if err != nil {
			panic(err)
		}
		handles = append(handles, g)
	}
	inner, err = in.Graph(ctx, "?g")
	if err != nil {
		panic(err)
	}
	var pre []*triple.Triple
	for _, ti := range c.Pre {
		pre = append(pre, uni[ti])
	}
	inner.AddTriples(ctx, pre)
	return
}

func (h *memoHarness) runSequential(t *testing.T, c *MemoCase) *Outcome {
	o := okOutcome()
	ctx := context.Background()
	uni := make([]*triple.Triple, len(c.U))
	for i, s := range c.U {
		uni[i] = s.Triple()
	}
	sim.SetMapSeed(c.Sched | 1)
	inner, handles, ss := memoSetup(ctx, c, uni)
	wrote, readAfter := false, false
	afterFault := false
	lastWriter := -1
	var sig []string
	for i, op := range c.Ops {
		if op.H >= len(handles) {
			op.H = 0
		}
		hd := handles[op.H]
		sig = append(sig, fmt.Sprintf("%s%d", op.K, op.H))
		// faulty-driver configuration: the next call this op makes on the wrapped driver fails
		armed, fired := false, false
		opCtx := ctx
		giveUp := op.F != nil && op.F.Mode == "giveup" && op.K == "lookup"
		if giveUp {
			sig[len(sig)-1] += "!giveup"
		}
		if ss != nil && op.F != nil && op.F.Mode != "giveup" {
			if op.F.Mode == "cancel" {
				var cancel context.CancelFunc
				opCtx, cancel = context.WithCancel(ctx)
				defer cancel()
				ss.cfg.Cancel = cancel
			}
			ss.arm(*op.F)
			armed = true
			sig[len(sig)-1] += "!" + op.F.Mode
		}
		settle := func() {
			if armed {
				fired = ss.disarm()
				if fired {
					o.stat("fault_wrapped_driver_"+op.F.Mode, 1)
				} else {
					o.stat("fault_armed_not_reached_cache_hit", 1)
				}
			}
		}
		suffix := ""
		if afterFault {
			suffix = ":after-a-failed-driver-call"
		}
		switch op.K {
		case "add", "rm":
			var batch []*triple.Triple
			for _, ti := range op.Ts {
				batch = append(batch, uni[ti])
			}
			var err error
			if op.K == "add" {
				err = hd.AddTriples(ctx, batch)
			} else {
				err = hd.RemoveTriples(ctx, batch)
			}
			settle()
			if fired {
				// the driver refused the write before applying anything: the wrapper must report it, the state is unchanged
				if err == nil {
					return violation("C19:fault-swallowed:write", "op %d %s: the wrapped driver failed the write but the wrapper reported success\nhistory: %s", i, op.desc(c), h.renderSeq(c, i))
				}
				afterFault = true
				continue
			}
			if err != nil {
				return violation("C19:write-error", "op %d %s: %v", i, op.desc(c), err)
			}
			wrote, lastWriter = true, op.H
		case "exist":
			got, err1 := hd.Exist(ctx, uni[op.Ts[0]])
			settle()
			want, err2 := inner.Exist(ctx, uni[op.Ts[0]])
			if fired {
				if err1 == nil {
					return violation("C19:fault-swallowed:exist", "op %d %s: the wrapped driver failed but the wrapper answered (%v, nil)\nhistory: %s", i, op.desc(c), got, h.renderSeq(c, i))
				}
				afterFault = true
				continue
			}
			if (err1 != nil) != (err2 != nil) || got != want {
				return violation("C19:"+h.seqClass(c, "exist", op, lastWriter, suffix), "op %d %s through the wrapper = (%v,%v), wrapped store = (%v,%v)\nhistory: %s", i, op.desc(c), got, err1, want, err2, h.renderSeq(c, i))
			}
			readAfter = readAfter || wrote
		case "lookup":
			os := OptSpec{}
			if op.Opt != nil {
				os = *op.Opt
			}
			lo1, lo2 := os.Build(), os.Build()
			snap := optsSnapshot(lo1)
			if giveUp {
				var cancel context.CancelFunc
				opCtx, cancel = context.WithCancel(ctx)
				defer cancel()
				drainCancel, drainCancelAfter, drainCancelled = cancel, op.F.J, false
			}
			got := doLookup(opCtx, hd, *op.L, lo1, c.Cap)
			gaveUp := giveUp && drainCancelled
			drainCancel = nil
			settle()
			want := doLookup(ctx, inner, *op.L, lo2, c.Cap)
			o.stat("reads", 1)
			if optsSnapshot(lo1) != snap {
				return violation("C19:options-modified", "op %d %s modified its options", i, op.desc(c))
			}
			if !got.Closed {
				return violation("C19:channel-not-closed", "op %d %s: wrapper did not close the channel", i, op.desc(c))
			}
			if gaveUp {
				// the caller cancelled after j elements: the read may fail (having delivered a prefix) or complete - the
				// wrapped store, which ignores the context, completes. What it may not do is report success for a part.
				o.stat("fault_caller_gives_up_after_j_elements", 1)
				if lastWriter >= 0 && lastWriter != op.H {
					// this handle's memo may be older than the last write (the open finding "per-handle caches"): what the
					// complete answer of this read is cannot be told from the wrapped store
					o.stat("given_up_reads_not_judged_other_handle_wrote_last", 1)
					afterFault = true
					continue
				}
				// (a part of the answer, not a positional prefix: the order of an unpaged answer is the driver's business and
				// two calls need not agree on it)
				if !subMultiset(got.Keys, want.Keys) {
					return violation("C19:wrong-data-on-cancelled-read", "op %d %s: delivered %q, the wrapped store holds %q\nhistory: %s", i, op.desc(c), got.Keys, want.Keys, h.renderSeq(c, i))
				}
				if got.Err == nil && len(got.Keys) != len(want.Keys) {
					return violation("C19:cancelled-read-reports-success-for-a-part", "op %d %s: the caller cancelled after %d elements; the wrapper delivered %d of %d elements and returned a nil error (the wrapped store delivers all of them)\nhistory: %s", i, op.desc(c), op.F.J, len(got.Keys), len(want.Keys), h.renderSeq(c, i))
				}
				afterFault = true
				continue
			}
			if fired && op.F.Mode == "cancel" {
				// the caller cancelled its own read: it may fail or not, but it never delivers anything the wrapped store does
				// not hold, in order; what matters is the next read
				if len(got.Keys) > len(want.Keys) || !equalStrings(got.Keys, want.Keys[:len(got.Keys)]) {
					return violation("C19:wrong-data-on-cancelled-read", "op %d %s: delivered %q, the wrapped store holds %q\nhistory: %s", i, op.desc(c), got.Keys, want.Keys, h.renderSeq(c, i))
				}
				afterFault = true
				continue
			}
			if fired {
				// the wrapped driver returned an error (before or after part of the elements): so must the wrapper,
				// and what it delivered must be a prefix of what the driver delivered (= of the full answer)
				if got.Err == nil {
					return violation("C19:fault-swallowed:lookup", "op %d %s: the wrapped driver failed but the wrapper returned %q with a nil error\nhistory: %s", i, op.desc(c), got.Keys, h.renderSeq(c, i))
				}
				if len(got.Keys) > len(want.Keys) || !equalStrings(got.Keys, want.Keys[:len(got.Keys)]) {
					return violation("C19:wrong-data-with-error", "op %d %s: delivered %q before the error, the wrapped store holds %q\nhistory: %s", i, op.desc(c), got.Keys, want.Keys, h.renderSeq(c, i))
				}
				afterFault = true
				continue
			}
			if (got.Err != nil) != (want.Err != nil) || !equalStrings(got.Keys, want.Keys) {
				return violation("C19:"+h.seqClass(c, "lookup", op, lastWriter, suffix), "op %d %s through the wrapper = %q err=%v, wrapped store = %q err=%v\nhistory: %s", i, op.desc(c), got.Keys, got.Err, want.Keys, want.Err, h.renderSeq(c, i))
			}
			readAfter = readAfter || wrote
			if afterFault {
				o.stat("probe_read_after_failed_driver_call", 1)
			}
		}
	}
	o.NonTrivial = (wrote && readAfter) || afterFault
	o.Hash = hashStr("seq" + strings.Join(sig, ",") + fmt.Sprint(c.U, c.Pre))
	o.Sample = map[string]any{"ops": h.renderSeq(c, len(c.Ops)-1), "case": c}
	return o
}

func (h *memoHarness) renderSeq(c *MemoCase, upto int) []string {
	var ls []string
	for i := 0; i <= upto && i < len(c.Ops); i++ {
		ls = append(ls, c.Ops[i].desc(c))
	}
	return ls
}

// seqClass narrows a sequential mismatch: does the failing read go through a
// handle other than the one the last write went through, and does it page?
func (h *memoHarness) seqClass(c *MemoCase, kind string, op MemoOp, lastWriter int, suffix string) string {
	cls := "differs-" + kind
	if lastWriter >= 0 && lastWriter != op.H {
		// explained by the per-handle caches whether or not a driver call failed earlier
		cls += ":read-through-other-handle-than-last-write"
	} else {
		cls += suffix
	}
	if op.Opt != nil && op.Opt.Off > 0 {
		cls += ":paged-with-offset"
	}
	return cls
}

// ---- concurrent configuration ----------------------------------------------

type memoEvent struct {
	client    int
	op        MemoOp
	call, ret int64
	keys      []string
	b         bool
	err       error
	closed    bool
	done      bool
}

func (h *memoHarness) runConcurrent(t *testing.T, c *MemoCase) *Outcome {
	o := okOutcome()
	ctx := context.Background()
	uni := make([]*triple.Triple, len(c.U))
	for i, s := range c.U {
		uni[i] = s.Triple()
	}
	var tape *sim.Tape
	if c.Tape != nil {
		tape = sim.ReplayTape(c.Tape)
	} else {
		tape = sim.NewTape(c.Sched)
	}
	var events []*memoEvent
	sim.SetMapSeed(c.Sched | 1)
	cfg := sim.Config{Preempt: c.Preempt, PreemptMean: c.PMean, MaxSteps: 80000, Trace: traceOn}
	var auditInner storage.Graph
	var auditHandles []storage.Graph
	res, bmsg := simRun(t, tape, cfg, func(r *sim.Runtime) {
		inner, handles, _ := memoSetup(ctx, c, uni)
		auditInner, auditHandles = inner, handles
		for ci, ops := range c.Clients {
			ci, ops := ci, ops
			r.Client(fmt.Sprintf("c%d", ci), func() {
				for _, op := range ops {
					sim.Point(-10)
					if op.H >= len(handles) {
						op.H = 0
					}
					hd := handles[op.H]
					ev := &memoEvent{client: ci, op: op}
					events = append(events, ev)
					ev.call = sim.Stamp()
					switch op.K {
					case "add", "rm":
						var batch []*triple.Triple
						for _, ti := range op.Ts {
							batch = append(batch, uni[ti])
						}
						sim.PreemptSoon(1 + int(c.Sched%120))
						if op.K == "add" {
							ev.err = hd.AddTriples(ctx, batch)
						} else {
							ev.err = hd.RemoveTriples(ctx, batch)
						}
						ev.ret = sim.Stamp()
					case "exist":
						ev.b, ev.err = hd.Exist(ctx, uni[op.Ts[0]])
						ev.ret = sim.Stamp()
					case "lookup":
						os := OptSpec{}
						if op.Opt != nil {
							os = *op.Opt
						}
						lr := doLookupR(ctx, hd, *op.L, os.Build(), c.Cap, func() { ev.ret = sim.Stamp() })
						ev.keys, ev.err, ev.closed = lr.Keys, lr.Err, lr.Closed
					}
					ev.done = true
				}
			})
		}
	})
	if res == nil {
		return infra("simulation did not produce a result: %s", bmsg)
	}
	o.stat("steps", res.Steps)
	o.stat("decisions", int64(res.Decisions))
	o.stat("preempts_fired", int64(res.Preempts))
	if res.Hazard != "" {
		return infra("scheduler hazard: %s", res.Hazard)
	}
	render := func() string {
		var ls []string
		for _, e := range events {
			out := fmt.Sprintf("err=%v", e.err)
			if e.op.K == "lookup" {
				out += fmt.Sprintf(" %q", e.keys)
			} else if e.op.K == "exist" {
				out += fmt.Sprintf(" %v", e.b)
			}
			ls = append(ls, fmt.Sprintf("c%d [%d,%d] %s -> %s", e.client, e.call, e.ret, e.op.desc(c), out))
		}
		return strings.Join(ls, "\n")
	}
	o.Det = detHash(res.Log, tape.Rec, render(), fmt.Sprint(res.Steps, res.Decisions, res.Preempts, res.Leaked, res.Deadlock))
	fail := func(class, f string, a ...any) *Outcome {
		v := violation("C19:"+class, f, a...)
		v.Detail += "\nhistory:\n" + render()
		v.Stats, v.Det = o.Stats, o.Det
		return v
	}
	if len(res.Panics) > 0 {
		return fail("panic:"+panicSite(res.Panics[0]), "%s", firstLines(res.Panics[0], 30))
	}
	if res.StepCap {
		return fail("no-progress", "step cap reached: %s", joinLines(res.Stuck, 8))
	}
	o.stat("lock_discipline_accesses_checked", res.Touches)
	if len(res.Races) > 0 {
		return fail("data-race:lock-discipline", "%s", joinLines(res.Races, 6))
	}
	if res.Deadlock {
		return fail("deadlock", "no runnable task while clients are unfinished:\n%s", joinLines(res.Stuck, 8))
	}
	if res.Leaked > 0 {
		return fail("goroutine-left", "%d goroutine(s) left:\n%s", res.Leaked, res.LeakDump)
	}
	// states produced by the single writer
	type wrange struct{ lo, hi int }
	cur := map[int]bool{}
	for _, ti := range c.Pre {
		cur[ti] = true
	}
	snapshot := func() []*triple.Triple {
		var ks []int
		for k := range cur {
			ks = append(ks, k)
		}
		sort.Ints(ks)
		var ts []*triple.Triple
		for _, k := range ks {
			ts = append(ts, uni[k])
		}
		return ts
	}
	states := [][]*triple.Triple{snapshot()}
	wr := map[*memoEvent]wrange{}
	for _, e := range events {
		if e.op.K != "add" && e.op.K != "rm" {
			continue
		}
		if e.client != 0 {
			return infra("only client 0 may write")
		}
		if !e.done {
			return fail("deadlock", "write did not finish")
		}
		if e.err != nil {
			return fail("write-error", "%v", e.err)
		}
		lo := len(states)
		if e.op.K == "add" {
			for _, ti := range e.op.Ts {
				cur[ti] = true
			}
			states = append(states, snapshot())
		} else {
			for _, ti := range e.op.Ts {
				delete(cur, ti)
				states = append(states, snapshot())
			}
		}
		wr[e] = wrange{lo, len(states) - 1}
	}
	overlap := false
	for _, e := range events {
		if e.op.K == "add" || e.op.K == "rm" {
			continue
		}
		if !e.done {
			return fail("deadlock", "read did not finish")
		}
		if e.op.K == "lookup" && !e.closed {
			return fail("channel-not-closed", "%s", e.op.desc(c))
		}
		imin, jmax := 0, 0
		for w, rg := range wr {
			if w.ret < e.call && rg.hi > imin {
				imin = rg.hi
			}
			if w.call < e.ret && rg.hi > jmax {
				jmax = rg.hi
			}
			if w.call < e.ret && e.call < w.ret {
				overlap = true
			}
		}
		if e.err != nil {
			return fail("read-error", "%s: %v", e.op.desc(c), e.err)
		}
		matches := func(k int) bool {
			if e.op.K == "exist" {
				in := false
				for _, tr := range states[k] {
					if tripleKey(tr) == tripleKey(uni[e.op.Ts[0]]) {
						in = true
					}
				}
				return in == e.b
			}
			os := OptSpec{}
			if e.op.Opt != nil {
				os = *e.op.Opt
			}
			return equalStrings(sortedCopy(e.keys), refLookupKeys(states[k], *e.op.L, os))
		}
		ok := false
		for k := imin; k <= jmax; k++ {
			if matches(k) {
				ok = true
			}
		}
		if ok {
			continue
		}
		stale := false
		for k := 0; k < imin; k++ {
			if matches(k) {
				stale = true
			}
		}
		cls := "wrong-data"
		if stale {
			cls = "stale-read"
		}
		if e.op.H != 0 {
			cls += ":through-other-handle-than-the-writer"
		} else {
			cls += ":same-handle"
		}
		return fail(cls, "%s answered %q/%v, which is the wrapped store's answer in none of the states S%d..S%d it may observe", e.op.desc(c), e.keys, e.b, imin, jmax)
	}
	// quiescent audit: every client has returned; each read of the history, repeated now through the writer's handle,
	// answers like the wrapped store (something memoized during the overlap and never invalidated shows here)
	if auditInner != nil {
		for _, e := range events {
			if e.op.K == "add" || e.op.K == "rm" {
				continue
			}
			if e.op.K == "exist" {
				got, err1 := auditHandles[0].Exist(ctx, uni[e.op.Ts[0]])
				want, err2 := auditInner.Exist(ctx, uni[e.op.Ts[0]])
				if err1 != nil || err2 != nil || got != want {
					return fail("stale-read:same-handle:after-quiescence", "after all clients returned, exist #%d through the writer's handle = (%v,%v), wrapped store = (%v,%v)", e.op.Ts[0], got, err1, want, err2)
				}
				continue
			}
			os := OptSpec{}
			if e.op.Opt != nil {
				os = *e.op.Opt
			}
			got := doLookup(ctx, auditHandles[0], *e.op.L, os.Build(), c.Cap)
			want := doLookup(ctx, auditInner, *e.op.L, os.Build(), c.Cap)
			if (got.Err != nil) != (want.Err != nil) || !equalStrings(got.Keys, want.Keys) {
				return fail("stale-read:same-handle:after-quiescence", "after all clients returned, %s through the writer's handle = %q err=%v, wrapped store = %q err=%v", e.op.desc(c), got.Keys, got.Err, want.Keys, want.Err)
			}
			o.stat("audit_reads", 1)
		}
	}
	if overlap {
		o.stat("probe_read_overlaps_write", 1)
	}
	if res.LockWaits > 0 {
		o.stat("probe_lock_waits", int64(res.LockWaits))
	}
	o.NonTrivial = res.Decisions > 0 && overlap
	o.Hash = hashStr(fmt.Sprintf("conc%s|%x", render(), res.SchedHash))
	c2 := *c
	c2.Tape = tape.Rec
	o.Sample = map[string]any{"history": strings.Split(render(), "\n"), "steps": res.Steps, "case": c2}
	return o
}
