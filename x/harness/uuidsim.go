package harness

import (
	"encoding/json"
	"fmt"
	"sort"
	"strings"
	"testing"

	"github.com/google/badwolf/triple"
	"github.com/google/badwolf/triple/literal"
	"github.com/google/badwolf/triple/node"
	"github.com/google/badwolf/triple/predicate"
	"github.com/google/badwolf/xverif/sim"
)

// C06: equal UUID exactly when values are equal; the UUID of a value is the
// same on every call and in every goroutine. Node, literal and triple UUIDs are
// computed in scratch buffers taken from sync.Pool: what a call finds in its
// buffer depends on what other calls - of this goroutine earlier, of other
// goroutines meanwhile - left there. In this check's own instrumented build the
// four value packages get yield points and their pools become sim.Pool (one LIFO
// free list shared by all tasks, reset per run), so that which call inherits
// whose buffer, and where a call is interrupted, is decided by the seed.
//
// Oracles: (1) every UUID computed by any task at any point of any run equals
// the UUID the same value gets in a fresh state (pools empty, nothing hashed
// before); (2) UUID and Triple.Equal agree with structural equality over the
// values of the case; (3) no panic (definedness). What a different PROCESS
// computes is outside a single-process simulator.

func init() { register("C06", func() Harness { return &uuidHarness{} }) }

// UVal names a value: kind n|p|o|t and vocabulary indices.
type UVal struct {
	K string `json:"k"`
	I int    `json:"i,omitempty"`
	T TSpec  `json:"t,omitempty"`
}

type UUIDCase struct {
	Vals    []UVal  `json:"vals"`
	Tasks   [][]int `json:"tasks"` // per task: indices into Vals, in call order
	Sched   uint64  `json:"sched"`
	Preempt int     `json:"preempt"`
	PMean   int     `json:"pmean"`
}

type uuidHarness struct{}

func (h *uuidHarness) Decode(b []byte) (any, error) {
	c := &UUIDCase{}
	return c, json.Unmarshal(b, c)
}

func (h *uuidHarness) Gen(r *Rand, tier string, clean bool) any {
	c := &UUIDCase{Sched: r.U64(), Preempt: r.Intn(6), PMean: []int{3, 10, 40}[r.Intn(3)]}
	nn, np, no := len(V.Nodes), len(V.Preds), len(V.Objs)
	if clean {
		// clear of the values whose UUIDs are known to collide (open findings): the node type/id boundary pair and the
		// literals whose value bytes coincide across types
		nn, no = V.NodesClean, V.ObjsClean
	}
	n := r.Range(3, 9)
	for i := 0; i < n; i++ {
		switch r.Intn(5) {
		case 0:
			c.Vals = append(c.Vals, UVal{K: "n", I: r.Intn(nn)})
		case 1:
			c.Vals = append(c.Vals, UVal{K: "p", I: r.Intn(np)})
		case 2:
			c.Vals = append(c.Vals, UVal{K: "o", I: r.Intn(no)})
		default:
			c.Vals = append(c.Vals, UVal{K: "t", T: TSpec{r.Intn(nn), r.Intn(np), r.Intn(no)}})
		}
	}
	for t, nt := 0, r.Range(2, 4); t < nt; t++ {
		var calls []int
		for i, m := 0, r.Range(2, 6); i < m; i++ {
			calls = append(calls, r.Intn(len(c.Vals)))
		}
		c.Tasks = append(c.Tasks, calls)
	}
	return c
}

func (h *uuidHarness) Shrink(ci any) []any {
	c := ci.(*UUIDCase)
	var out []any
	for t := range c.Tasks {
		if len(c.Tasks) > 1 {
			d := *c
			d.Tasks = append(append([][]int{}, c.Tasks[:t]...), c.Tasks[t+1:]...)
			out = append(out, &d)
		}
		for i := range c.Tasks[t] {
			if len(c.Tasks[t]) > 1 {
				d := *c
				d.Tasks = append([][]int{}, c.Tasks...)
				d.Tasks[t] = append(append([]int{}, c.Tasks[t][:i]...), c.Tasks[t][i+1:]...)
				out = append(out, &d)
			}
		}
	}
	if c.Preempt > 0 {
		d := *c
		d.Preempt--
		out = append(out, &d)
	}
	return out
}

type uuidVal struct {
	desc string
	key  string
	uuid func() string
	tr   *triple.Triple
}

// freshNode / freshPred / freshObj build NEW value objects equal to vocabulary entries: whatever a value keeps
// inside itself (a lazily computed id, a memo) starts empty, so that first calls can meet each other.
func freshNode(i int) *node.Node {
	n := V.Nodes[i%len(V.Nodes)]
	return mustNode(n.Type().String(), n.ID().String())
}

func freshPred(i int) *predicate.Predicate {
	p := V.Preds[i%len(V.Preds)]
	if np, err := predicate.Parse(p.String()); err == nil {
		return np
	}
	return p
}

func freshObj(i int) *triple.Object {
	o := V.Objs[i%len(V.Objs)]
	if n, err := o.Node(); err == nil {
		return triple.NewNodeObject(mustNode(n.Type().String(), n.ID().String()))
	}
	if p, err := o.Predicate(); err == nil {
		if np, err := predicate.Parse(p.String()); err == nil {
			return triple.NewPredicateObject(np)
		}
	}
	if l, err := o.Literal(); err == nil {
		if nl, err := literal.DefaultBuilder().Parse(l.String()); err == nil && nl != nil {
			return triple.NewLiteralObject(nl)
		}
	}
	return o
}

// resolve builds the value anew on every call (see freshNode).
func (v UVal) resolve() uuidVal {
	switch v.K {
	case "n":
		n := freshNode(v.I)
		return uuidVal{desc: "node " + n.String(), key: nodeKey(n), uuid: func() string { return n.UUID().String() }}
	case "p":
		p := freshPred(v.I)
		return uuidVal{desc: "predicate " + p.String(), key: predKey(p), uuid: func() string { return p.UUID().String() }}
	case "o":
		o := freshObj(v.I)
		return uuidVal{desc: "object " + o.String(), key: "O" + objKey(o), uuid: func() string { return o.UUID().String() }}
	}
	t, err := triple.New(freshNode(v.T[0]), freshPred(v.T[1]), freshObj(v.T[2]))
	if err != nil {
		panic(err)
	}
	return uuidVal{desc: "triple " + t.String(), key: tripleKey(t), uuid: func() string { return t.UUID().String() }, tr: t}
}

func (h *uuidHarness) Run(t *testing.T, ci any) *Outcome {
	c := ci.(*UUIDCase)
	o := okOutcome()
	vals := make([]uuidVal, len(c.Vals))
	for i, v := range c.Vals {
		vals[i] = v.resolve()
	}
	mk := func(cls, f string, a ...any) *Outcome {
		v := violation("C06:"+cls, f, a...)
		v.Stats = o.Stats
		return v
	}
	// reference: each value hashed in a fresh state (empty pools), in the harness goroutine
	fresh := make([]string, len(vals))
	for i := range vals {
		sim.ResetPools()
		func() {
			defer func() {
				if p := recover(); p != nil {
					fresh[i] = "PANIC: " + fmt.Sprint(p)
				}
			}()
			fresh[i] = vals[i].uuid()
		}()
		if strings.HasPrefix(fresh[i], "PANIC") {
			return mk("undefined:"+c.Vals[i].K, "UUID of %s panics: %s", vals[i].desc, fresh[i])
		}
	}
	// (2) injectivity and Equal over the values of the case
	for i := range vals {
		for j := i + 1; j < len(vals); j++ {
			same := vals[i].key == vals[j].key
			if (fresh[i] == fresh[j]) != same && c.Vals[i].K == c.Vals[j].K {
				kind := "values-differ-uuid-equal"
				if same {
					kind = "values-equal-uuid-differs"
				}
				sub := ""
				if vals[i].tr != nil && vals[j].tr != nil {
					sub = ":" + collisionKind(vals[i].tr, vals[j].tr)
				} else if !same {
					sub = ":" + c.Vals[i].K
					if c.Vals[i].K == "n" {
						sub = ":node-type-id-boundary"
					}
					if c.Vals[i].K == "o" {
						oi, oj := V.Objs[c.Vals[i].I%len(V.Objs)], V.Objs[c.Vals[j].I%len(V.Objs)]
						ti, _ := triple.New(V.Nodes[0], V.Preds[0], oi)
						tj, _ := triple.New(V.Nodes[0], V.Preds[0], oj)
						sub = ":" + collisionKind(ti, tj)
					}
				}
				return mk(kind+sub, "%s and %s: structurally equal=%v, UUIDs %s / %s", vals[i].desc, vals[j].desc, same, fresh[i], fresh[j])
			}
			if vals[i].tr != nil && vals[j].tr != nil && vals[i].tr.Equal(vals[j].tr) != same {
				return mk("equal-disagrees:"+collisionKind(vals[i].tr, vals[j].tr), "Triple.Equal(%s, %s) = %v, structurally equal=%v", vals[i].desc, vals[j].desc, !same, same)
			}
		}
	}
	// (1) the same values - as NEW objects, nothing computed inside them yet - hashed by concurrent tasks sharing the
	// pools, under the seeded scheduler
	for i, v := range c.Vals {
		vals[i] = v.resolve()
	}
	sim.ResetPools()
	type obs struct {
		task, call, val int
		got            string
	}
	var seen []obs
	tape := sim.NewTape(c.Sched)
	cfg := sim.Config{Preempt: c.Preempt, PreemptMean: c.PMean, MaxSteps: 200000, Trace: traceOn}
	res, bmsg := simRun(t, tape, cfg, func(r *sim.Runtime) {
		for ti, calls := range c.Tasks {
			ti, calls := ti, calls
			r.Client(fmt.Sprintf("t%d", ti), func() {
				for ci, vi := range calls {
					sim.Point(-40)
					if ti == 0 && ci == 0 {
						sim.PreemptSoon(12)
					}
					u := vals[vi%len(vals)].uuid()
					seen = append(seen, obs{ti, ci, vi % len(vals), u})
				}
			})
		}
	})
	if res == nil {
		return infra("no result: %s", bmsg)
	}
	if res.Hazard != "" {
		return infra("scheduler hazard: %s", res.Hazard)
	}
	o.stat("steps", res.Steps)
	o.stat("uuid_calls", int64(len(seen)))
	var log []string
	for _, s := range seen {
		log = append(log, fmt.Sprintf("t%d#%d %d %s", s.task, s.call, s.val, s.got))
	}
	o.Det = detHash(res.Log, tape.Rec, strings.Join(log, "\n"))
	for _, tk := range res.Panics {
		return mk("panic:"+panicSite(tk), "panic while hashing concurrently: %s", firstLines(tk, 20))
	}
	if res.Deadlock || res.StepCap {
		return mk("no-progress", "UUID computation did not finish: %s", joinLines(res.Stuck, 6))
	}
	sort.Slice(seen, func(i, j int) bool {
		if seen[i].task != seen[j].task {
			return seen[i].task < seen[j].task
		}
		return seen[i].call < seen[j].call
	})
	for _, s := range seen {
		if s.got != fresh[s.val] {
			return mk("uuid-depends-on-history-or-schedule:"+c.Vals[s.val].K, "task %d, call %d: UUID of %s is %s, in a fresh state it is %s\ncalls: %v", s.task, s.call, vals[s.val].desc, s.got, fresh[s.val], c.Tasks)
		}
	}
	if res.Decisions > 0 {
		o.stat("probe_runs_with_interleaved_uuid_calls", 1)
	}
	o.NonTrivial = res.Decisions > 0 && len(seen) > 2
	o.Hash = hashStr(fmt.Sprintf("%v|%v|%x", c.Vals, c.Tasks, res.SchedHash))
	o.Sample = map[string]any{"values": func() []string {
		var d []string
		for _, v := range vals {
			d = append(d, v.desc)
		}
		return d
	}(), "tasks": c.Tasks, "steps": res.Steps}
	return o
}
