package harness

import (
	"time"
	"context"
	"errors"
	"fmt"
	"sync"

	"github.com/google/badwolf/storage"
	"github.com/google/badwolf/triple"
	"github.com/google/badwolf/triple/node"
	"github.com/google/badwolf/triple/predicate"
	"github.com/google/badwolf/xverif/sim"
)

// simStore is the simulated storage driver: a pure implementation of
// storage.Store / storage.Graph over an inner store. Every driver call is a
// scheduling point of the seeded scheduler, element delivery can be paced,
// unpaged results can be emitted in a permuted order, and a fault plan makes
// chosen calls (by position in the call trace) fail. It always honours the
// driver contract: the result channel is closed before the call returns, also
// on error - so a hang or leak downstream is the engine's, not the stub's.

type FaultSpec struct {
	Call int    `json:"call"` // position in the call trace (0-based)
	Mode string `json:"mode"` // before | after (after J elements) | fail (non-streaming call) | cancel (the caller's context is cancelled when the call starts / after J elements; the call itself does not fail unless the driver is context aware)
	J    int    `json:"j,omitempty"`
	W    int    `json:"w,omitempty"` // when > 0: the fault hits the W-th AddTriples / RemoveTriples call instead of call position Call
}

type callRec struct {
	Idx       int    `json:"idx"`
	Method    string `json:"method"`
	Desc      string `json:"desc"`
	Stream    bool   `json:"stream"`
	Write     bool   `json:"write"`
	Delivered int    `json:"delivered"`
	Available int    `json:"available"`
	Faulted   string `json:"faulted,omitempty"`
}

type simStoreCfg struct {
	Permute bool // permute unpaged emissions
	Pace    int  // 0: deliver without yielding; 1: a scheduling point before every element; 2: before some (tape)
	Faults  []FaultSpec
	// CtxAware: the driver honours its context the way a remote driver does - a call that finds the context done
	// returns ctx.Err() (before delivering anything, or between two elements). The in-memory driver never does.
	CtxAware bool
	// SlowWrites: every AddTriples / RemoveTriples takes this long (simulated time) before it is applied.
	SlowWrites time.Duration
	// Transparent: lookups are forwarded with the engine's own result channel instead of being collected and re-delivered
	// (no pacing, no permutation, no mid-stream faults): the real driver's behaviour towards the engine is not shielded.
	Transparent bool
	// Cancel cancels the caller's context (fault mode "cancel": the client goes away while call k is in flight).
	Cancel context.CancelFunc
}

type simStore struct {
	inner storage.Store
	cfg   simStoreCfg
	mu    sync.Mutex
	trace []*callRec
	fired map[string]int
	armedAt int
	writes   int
	inflight int
	probes   map[string]int // reach probes: rare conditions that were actually hit
	failed  int // calls that returned an error to the engine (injected, or ctx.Err() of a context aware driver)
}

var errInjected = errors.New("simstore: injected storage driver failure")

func newSimStore(inner storage.Store, cfg simStoreCfg) *simStore {
	return &simStore{inner: inner, cfg: cfg, fired: map[string]int{}, probes: map[string]int{}}
}

// begin records a call, yields to the scheduler and returns the fault (if any)
// planned for this position.
func (s *simStore) begin(ctx context.Context, method, desc string, stream, write bool) (*callRec, *FaultSpec, error) {
	s.mu.Lock()
	rec := &callRec{Idx: len(s.trace), Method: method, Desc: desc, Stream: stream, Write: write}
	s.trace = append(s.trace, rec)
	var f *FaultSpec
	if write && (method == "AddTriples" || method == "RemoveTriples") {
		s.writes++
	}
	for i := range s.cfg.Faults {
		if w := s.cfg.Faults[i].W; w > 0 {
			if write && (method == "AddTriples" || method == "RemoveTriples") && s.writes == w {
				f = &s.cfg.Faults[i]
			}
			continue
		}
		if s.cfg.Faults[i].Call == rec.Idx {
			f = &s.cfg.Faults[i]
		}
	}
	s.inflight++
	if s.inflight >= 2 {
		s.probes["driver_call_started_while_another_is_in_flight"]++
	}
	s.mu.Unlock()
	sim.Point(-20)
	if f != nil && f.Mode == "cancel" {
		if f.J == 0 || !stream {
			s.cancelNow(rec)
			f = nil
		}
	}
	if f != nil && f.Mode == "slowmid" && !stream {
		f = &FaultSpec{Call: f.Call, Mode: "slow"} // nothing to stream: the call as a whole is slow
	}
	if f != nil && f.Mode == "slow" {
		// a slow (not failing) driver call: it takes J+1 seconds of simulated time before it starts to answer
		s.mu.Lock()
		s.fired["slow_call_simulated_seconds"] += f.J + 1
		s.mu.Unlock()
		time.Sleep(time.Duration(f.J+1) * time.Second)
		f = nil
	}
	if err := s.ctxErr(ctx, rec); err != nil {
		return rec, nil, err
	}
	return rec, f, nil
}

func (s *simStore) cancelNow(rec *callRec) {
	if s.cfg.Cancel != nil {
		s.cfg.Cancel()
		s.mu.Lock()
		if rec.Faulted == "" {
			rec.Faulted = "cancel"
		}
		s.fired["caller_cancel"]++
		if s.inflight >= 2 {
			s.probes["cancel_while_other_driver_calls_in_flight"]++
		}
		s.mu.Unlock()
	}
}

// end marks a driver call as returned.
func (s *simStore) end() {
	s.mu.Lock()
	s.inflight--
	s.mu.Unlock()
}

// ctxErr: what a context aware driver returns when it notices that its context is done.
func (s *simStore) ctxErr(ctx context.Context, rec *callRec) error {
	if !s.cfg.CtxAware || ctx.Err() == nil {
		return nil
	}
	s.mu.Lock()
	rec.Faulted = "ctx"
	s.fired["ctx_err_returned_by_driver"]++
	s.failed++
	s.mu.Unlock()
	return ctx.Err()
}

// arm makes the next driver call (whatever its position) fail as f says; disarm removes the plan and reports
// whether it fired. Used by harnesses that inject transient failures operation by operation.
func (s *simStore) arm(f FaultSpec) {
	s.mu.Lock()
	f.Call = len(s.trace)
	s.cfg.Faults = []FaultSpec{f}
	s.armedAt = len(s.trace)
	s.mu.Unlock()
}

func (s *simStore) disarm() bool {
	s.mu.Lock()
	defer s.mu.Unlock()
	s.cfg.Faults = nil
	return s.armedAt < len(s.trace) && s.trace[s.armedAt].Faulted != ""
}

func (s *simStore) fire(rec *callRec, kind string) {
	s.mu.Lock()
	rec.Faulted = kind
	s.fired[kind]++
	s.failed++
	if s.inflight >= 2 {
		s.probes["fault_while_other_driver_calls_in_flight"]++
	}
	s.mu.Unlock()
}

func (s *simStore) tapeDraw(n int) int {
	if n <= 1 {
		return 0
	}
	if r := simTape(); r != nil {
		return int(r.Draw(uint32(n)))
	}
	return 0
}

// simTape returns the tape of the active run (nil outside a simulated run).
func simTape() *sim.Tape { return sim.ActiveTape() }

func (s *simStore) Name(ctx context.Context) string    { return "SIMSTORE(" + s.inner.Name(ctx) + ")" }
func (s *simStore) Version(ctx context.Context) string { return s.inner.Version(ctx) }

func (s *simStore) NewGraph(ctx context.Context, id string) (storage.Graph, error) {
	rec, f, cerr := s.begin(ctx, "NewGraph", id, false, true)
	defer s.end()
	if cerr != nil {
		return nil, cerr
	}
	if f != nil {
		s.fire(rec, "err_on_newgraph")
		return nil, errInjected
	}
	g, err := s.inner.NewGraph(ctx, id)
	if err != nil {
		return nil, err
	}
	return &simGraph{s: s, g: g, id: id}, nil
}

func (s *simStore) Graph(ctx context.Context, id string) (storage.Graph, error) {
	rec, f, cerr := s.begin(ctx, "Graph", id, false, false)
	defer s.end()
	if cerr != nil {
		return nil, cerr
	}
	if f != nil {
		s.fire(rec, "err_on_graph_open")
		return nil, errInjected
	}
	g, err := s.inner.Graph(ctx, id)
	if err != nil {
		return nil, err
	}
	return &simGraph{s: s, g: g, id: id}, nil
}

func (s *simStore) DeleteGraph(ctx context.Context, id string) error {
	rec, f, cerr := s.begin(ctx, "DeleteGraph", id, false, true)
	defer s.end()
	if cerr != nil {
		return cerr
	}
	if f != nil {
		s.fire(rec, "err_on_deletegraph")
		return errInjected
	}
	return s.inner.DeleteGraph(ctx, id)
}

func (s *simStore) GraphNames(ctx context.Context, names chan<- string) error {
	rec, f, cerr := s.begin(ctx, "GraphNames", "", true, false)
	defer s.end()
	if cerr != nil {
		close(names)
		return cerr
	}
	ch := make(chan string, 1<<12)
	if err := s.inner.GraphNames(ctx, ch); err != nil {
		close(names)
		return err
	}
	var all []string
	for n := range ch {
		all = append(all, n)
	}
	return deliver(ctx, s, rec, f, all, names, true)
}

// deliver streams els to out honouring pace, permutation and the fault plan,
// closes out and returns the call's error.
func deliver[T any](ctx context.Context, s *simStore, rec *callRec, f *FaultSpec, els []T, out chan<- T, mayPermute bool) error {
	closed := false
	defer func() {
		if !closed {
			close(out)
		}
	}()
	// "afterlate": like "after", but the driver closes its channel first and reports the failure two simulated seconds
	// later (a driver that rolls back / tears down before it returns)
	late := f != nil && f.Mode == "afterlate"
	if late {
		f = &FaultSpec{Call: f.Call, Mode: "after", J: f.J}
		defer func() {
			closed = true
			close(out)
			time.Sleep(2 * time.Second)
		}()
	}
	rec.Available = len(els)
	if f != nil && f.Mode == "before" {
		s.fire(rec, "err_before_first")
		return errInjected
	}
	// All tape draws happen here, while the caller still holds the baton (it
	// has just been released from the scheduling point in begin).
	if mayPermute && s.cfg.Permute && len(els) > 1 {
		for i := len(els) - 1; i > 0; i-- {
			j := s.tapeDraw(i + 1)
			els[i], els[j] = els[j], els[i]
		}
	}
	pause := make([]bool, len(els))
	for i := range els {
		switch s.cfg.Pace {
		case 1:
			pause[i] = true
		case 2:
			pause[i] = s.tapeDraw(3) == 0
		}
	}
	for i, e := range els {
		if f != nil && f.Mode == "after" && i >= f.J {
			s.fire(rec, "err_after_j")
			return errInjected
		}
		if pause[i] {
			sim.Point(-21)
		}
		if f != nil && f.Mode == "cancel" && i == f.J {
			s.cancelNow(rec)
		}
		if f != nil && f.Mode == "slowmid" && i <= 4 {
			// a driver that streams slowly: a simulated second before each of the first elements
			s.mu.Lock()
			s.fired["slow_stream_simulated_seconds"]++
			s.mu.Unlock()
			time.Sleep(time.Second)
		}
		if err := s.ctxErr(ctx, rec); err != nil {
			return err
		}
		if s.cfg.CtxAware {
			// a context aware driver does not stay blocked on a consumer that went away with the context
			select {
			case out <- e:
			case <-ctx.Done():
				return s.ctxErr(ctx, rec)
			}
		} else {
			out <- e
		}
		rec.Delivered++
	}
	if f != nil && f.Mode == "cancel" && f.J >= len(els) {
		s.cancelNow(rec) // the client goes away just as the call completes: the call itself succeeded
	}
	if f != nil && f.Mode == "after" {
		// fewer elements than J: fail at the end of the stream
		s.fire(rec, "err_after_all")
		return errInjected
	}
	return nil
}

type simGraph struct {
	s  *simStore
	g  storage.Graph
	id string
}

func (g *simGraph) ID(ctx context.Context) string { return g.g.ID(ctx) }

func (g *simGraph) AddTriples(ctx context.Context, ts []*triple.Triple) error {
	rec, f, cerr := g.s.begin(ctx, "AddTriples", fmt.Sprintf("%s n=%d", g.id, len(ts)), false, true)
	defer g.s.end()
	if cerr != nil {
		return cerr
	}
	if f != nil {
		g.s.fire(rec, "err_on_write")
		return errInjected
	}
	if g.s.cfg.SlowWrites > 0 {
		time.Sleep(g.s.cfg.SlowWrites)
	}
	return g.g.AddTriples(ctx, ts)
}

func (g *simGraph) RemoveTriples(ctx context.Context, ts []*triple.Triple) error {
	rec, f, cerr := g.s.begin(ctx, "RemoveTriples", fmt.Sprintf("%s n=%d", g.id, len(ts)), false, true)
	defer g.s.end()
	if cerr != nil {
		return cerr
	}
	if f != nil {
		g.s.fire(rec, "err_on_write")
		return errInjected
	}
	if g.s.cfg.SlowWrites > 0 {
		time.Sleep(g.s.cfg.SlowWrites)
	}
	return g.g.RemoveTriples(ctx, ts)
}

func (g *simGraph) Exist(ctx context.Context, t *triple.Triple) (bool, error) {
	rec, f, cerr := g.s.begin(ctx, "Exist", g.id+" "+t.String(), false, false)
	defer g.s.end()
	if cerr != nil {
		return false, cerr
	}
	if f != nil {
		g.s.fire(rec, "err_on_exist")
		return false, errInjected
	}
	return g.g.Exist(ctx, t)
}

func collect[T any](call func(chan<- T) error) ([]T, error) {
	// The result is drained concurrently: however large it is, the driver never stays blocked on a full buffer. The
	// drainer is plain harness code (no yield points); it only runs while the caller is blocked sending.
	ch := make(chan T, 256)
	var out []T
	done := make(chan struct{})
	go func() {
		for x := range ch {
			out = append(out, x)
		}
		close(done)
	}()
	err := call(ch)
	closedByCallee(ch) // a driver that forgot to close is closed here, so that the drainer always ends
	<-done
	if err != nil {
		return nil, err
	}
	return out, nil
}

func stream[T any](ctx context.Context, g *simGraph, method, desc string, lo *storage.LookupOptions, out chan<- T, call func(chan<- T) error) error {
	rec, f, cerr := g.s.begin(ctx, method, g.id+" "+desc+" "+lo.String(), true, false)
	defer g.s.end()
	if cerr != nil {
		close(out)
		return cerr
	}
	if g.s.cfg.Transparent {
		// the wrapped driver streams straight into the engine's channel (and closes it): its own locking, pacing and
		// channel discipline are what the engine meets; only "fail before the first element" can be injected here
		if f != nil && (f.Mode == "before" || f.Mode == "after") {
			g.s.fire(rec, "err_before_first")
			close(out)
			return errInjected
		}
		rec.Available = -1
		return call(out)
	}
	els, err := collect(call)
	if err != nil {
		close(out)
		return err
	}
	return deliver(ctx, g.s, rec, f, els, out, lo.MaxElements == 0)
}

func (g *simGraph) Objects(ctx context.Context, s *node.Node, p *predicate.Predicate, lo *storage.LookupOptions, objs chan<- *triple.Object) error {
	return stream(ctx, g, "Objects", s.String()+" "+p.String(), lo, objs, func(c chan<- *triple.Object) error { return g.g.Objects(ctx, s, p, lo, c) })
}

func (g *simGraph) Subjects(ctx context.Context, p *predicate.Predicate, o *triple.Object, lo *storage.LookupOptions, subs chan<- *node.Node) error {
	return stream(ctx, g, "Subjects", p.String()+" "+o.String(), lo, subs, func(c chan<- *node.Node) error { return g.g.Subjects(ctx, p, o, lo, c) })
}

func (g *simGraph) PredicatesForSubject(ctx context.Context, s *node.Node, lo *storage.LookupOptions, prds chan<- *predicate.Predicate) error {
	return stream(ctx, g, "PredicatesForSubject", s.String(), lo, prds, func(c chan<- *predicate.Predicate) error { return g.g.PredicatesForSubject(ctx, s, lo, c) })
}

func (g *simGraph) PredicatesForObject(ctx context.Context, o *triple.Object, lo *storage.LookupOptions, prds chan<- *predicate.Predicate) error {
	return stream(ctx, g, "PredicatesForObject", o.String(), lo, prds, func(c chan<- *predicate.Predicate) error { return g.g.PredicatesForObject(ctx, o, lo, c) })
}

func (g *simGraph) PredicatesForSubjectAndObject(ctx context.Context, s *node.Node, o *triple.Object, lo *storage.LookupOptions, prds chan<- *predicate.Predicate) error {
	return stream(ctx, g, "PredicatesForSubjectAndObject", s.String()+" "+o.String(), lo, prds, func(c chan<- *predicate.Predicate) error {
		return g.g.PredicatesForSubjectAndObject(ctx, s, o, lo, c)
	})
}

func (g *simGraph) TriplesForSubject(ctx context.Context, s *node.Node, lo *storage.LookupOptions, trpls chan<- *triple.Triple) error {
	return stream(ctx, g, "TriplesForSubject", s.String(), lo, trpls, func(c chan<- *triple.Triple) error { return g.g.TriplesForSubject(ctx, s, lo, c) })
}

func (g *simGraph) TriplesForPredicate(ctx context.Context, p *predicate.Predicate, lo *storage.LookupOptions, trpls chan<- *triple.Triple) error {
	return stream(ctx, g, "TriplesForPredicate", p.String(), lo, trpls, func(c chan<- *triple.Triple) error { return g.g.TriplesForPredicate(ctx, p, lo, c) })
}

func (g *simGraph) TriplesForObject(ctx context.Context, o *triple.Object, lo *storage.LookupOptions, trpls chan<- *triple.Triple) error {
	return stream(ctx, g, "TriplesForObject", o.String(), lo, trpls, func(c chan<- *triple.Triple) error { return g.g.TriplesForObject(ctx, o, lo, c) })
}

func (g *simGraph) TriplesForSubjectAndPredicate(ctx context.Context, s *node.Node, p *predicate.Predicate, lo *storage.LookupOptions, trpls chan<- *triple.Triple) error {
	return stream(ctx, g, "TriplesForSubjectAndPredicate", s.String()+" "+p.String(), lo, trpls, func(c chan<- *triple.Triple) error {
		return g.g.TriplesForSubjectAndPredicate(ctx, s, p, lo, c)
	})
}

func (g *simGraph) TriplesForPredicateAndObject(ctx context.Context, p *predicate.Predicate, o *triple.Object, lo *storage.LookupOptions, trpls chan<- *triple.Triple) error {
	return stream(ctx, g, "TriplesForPredicateAndObject", p.String()+" "+o.String(), lo, trpls, func(c chan<- *triple.Triple) error {
		return g.g.TriplesForPredicateAndObject(ctx, p, o, lo, c)
	})
}

func (g *simGraph) Triples(ctx context.Context, lo *storage.LookupOptions, trpls chan<- *triple.Triple) error {
	return stream(ctx, g, "Triples", "", lo, trpls, func(c chan<- *triple.Triple) error { return g.g.Triples(ctx, lo, c) })
}
