// Package harness holds the workloads, oracles and reference models of the
// badwolf simulation checks. It is copied into a scratch copy of the
// repository (as github.com/google/badwolf/xverif/harness) and built as a test
// binary; one OS process per shard.
package harness

import (
	"sync"
	"github.com/google/badwolf/triple/node"
	"github.com/pborman/uuid"
	"github.com/google/badwolf/xverif/sim"
	"bufio"
	"sync/atomic"
	"regexp"
	"crypto/sha1"
	"encoding/hex"
	"encoding/json"
	"fmt"
	"os"
	"runtime/debug"
	"sort"
	"strconv"
	"strings"
	"testing"
	"time"
)

// ---------------------------------------------------------------------------
// Seeded PRNG for case generation (splitmix64). Scheduler decisions use the
// sim.Tape; both derive from VERIF_SEED.

type Rand struct{ s uint64 }

func NewRand(parts ...uint64) *Rand {
	r := &Rand{s: 0x853c49e6748fea9b}
	for _, p := range parts {
		r.s ^= p + 0x9E3779B97F4A7C15 + (r.s << 6) + (r.s >> 2)
		r.U64()
	}
	return r
}

func (r *Rand) U64() uint64 {
	r.s += 0x9E3779B97F4A7C15
	z := r.s
	z = (z ^ (z >> 30)) * 0xBF58476D1CE4E5B9
	z = (z ^ (z >> 27)) * 0x94D049BB133111EB
	return z ^ (z >> 31)
}
func (r *Rand) Intn(n int) int {
	if n <= 0 {
		return 0
	}
	return int(r.U64()>>1) % n
}
func (r *Rand) Bool() bool          { return r.U64()&1 == 1 }
func (r *Rand) Chance(p float64) bool { return float64(r.U64()>>11)/float64(1<<53) < p }
func (r *Rand) Range(lo, hi int) int { return lo + r.Intn(hi-lo+1) }

// traceOn: BW_TRACE=1 makes the simulated runs record their event log.
var traceOn = os.Getenv("BW_TRACE") == "1"

var volatileRe = regexp.MustCompile(`0x[0-9a-f]+|/_<[0-9a-f-]{36}>`)

// detHash hashes everything a run decided and observed. Pointer values printed
// into error texts and the random ids of blank nodes are canonicalised.
func detHash(log []string, tape []uint32, extra ...string) string {
	return hashStr(strings.Join(log, "\n") + fmt.Sprint(tape) + volatileRe.ReplaceAllString(strings.Join(extra, "\n"), "X"))
}

func hashStr(s string) string {
	h := sha1.Sum([]byte(s))
	return hex.EncodeToString(h[:8])
}

// ---------------------------------------------------------------------------
// Outcome of one simulated execution

type Outcome struct {
	Verdict    string           `json:"verdict"`          // ok | violation | infra
	Class      string           `json:"class,omitempty"`  // violation class (oracle clause + narrow signature)
	Detail     string           `json:"detail,omitempty"` // human readable
	NonTrivial bool             `json:"nontrivial,omitempty"`
	Hash       string           `json:"hash,omitempty"` // distinctness hash (workload + schedule signature + faults)
	Stats      map[string]int64 `json:"stats,omitempty"`
	Execs      int64            `json:"execs,omitempty"` // simulated executions performed for this case (>=1)
	Sample     any              `json:"sample,omitempty"`
	Det        string           `json:"det,omitempty"` // hash of the full event log (determinism self-test)
}

func (o *Outcome) stat(k string, n int64) {
	if o.Stats == nil {
		o.Stats = map[string]int64{}
	}
	o.Stats[k] += n
}

func okOutcome() *Outcome { return &Outcome{Verdict: "ok"} }

func violation(class, format string, a ...any) *Outcome {
	return &Outcome{Verdict: "violation", Class: class, Detail: fmt.Sprintf(format, a...)}
}

func infra(format string, a ...any) *Outcome {
	return &Outcome{Verdict: "infra", Detail: fmt.Sprintf(format, a...)}
}

// Harness is one property's workload + oracle.
type Harness interface {
	// Gen builds case number idx of a shard from the PRNG. avoid lists the
	// trigger names of open known findings; when clean is true the case must
	// stay clear of them.
	Gen(r *Rand, tier string, clean bool) any
	// Decode parses a case from JSON (replay / shrink).
	Decode(b []byte) (any, error)
	// Run executes the case. It must be deterministic in the case.
	Run(t *testing.T, c any) *Outcome
	// Shrink proposes smaller variants of c (may be nil).
	Shrink(c any) []any
}

var registry = map[string]func() Harness{}

func register(id string, f func() Harness) { registry[id] = f }

// ---------------------------------------------------------------------------
// Shard driver. Environment:
//   BW_PROP     property id
//   BW_SEED     VERIF_SEED
//   BW_TIER     quick|thorough
//   BW_SHARD, BW_NSHARDS
//   BW_BUDGET_MS wall budget, BW_MAXCASES case budget
//   BW_START    first case index (restart after a crash)
//   BW_OUT      journal path (append)
//   BW_MODE     run (default) | one | shrink | selftest-det
//   BW_CASE     path of a case file (one / shrink)

type journal struct {
	f *os.File
	w *bufio.Writer
}

func (j *journal) line(kind string, v any) {
	if j.f == nil {
		return
	}
	var s string
	switch x := v.(type) {
	case string:
		s = x
	default:
		b, _ := json.Marshal(v)
		s = string(b)
	}
	j.w.WriteString(kind + " " + s + "\n")
	j.w.Flush()
}

type summary struct {
	Prop        string           `json:"prop"`
	Shard       int              `json:"shard"`
	Start       int              `json:"start"`
	Next        int              `json:"next"`
	Cases       int64            `json:"cases"`
	Execs       int64            `json:"execs"`
	NonTrivial  int64            `json:"nontrivial"`
	Hashes      []string         `json:"hashes"`
	Stats       map[string]int64 `json:"stats"`
	Samples     []any            `json:"samples"`
	WallMS      int64            `json:"wall_ms"`
	Violations  int              `json:"violations"`
	Infra       []string         `json:"infra"`
	CleanCases  int64            `json:"clean_cases"`
	HashesTotal int              `json:"hashes_total"`
	PreSites    []int32          `json:"pre_sites,omitempty"`
}

type violationRec struct {
	Prop    string          `json:"prop"`
	Shard   int             `json:"shard"`
	Idx     int             `json:"idx"`
	Seed    uint64          `json:"seed"`
	Clean   bool            `json:"clean"`
	Case    json.RawMessage `json:"case"`
	Outcome *Outcome        `json:"outcome"`
}

func envInt(k string, def int) int {
	if v := os.Getenv(k); v != "" {
		if n, err := strconv.Atoi(v); err == nil {
			return n
		}
	}
	return def
}

// caseRand derives the generator PRNG of case idx of a shard.
func caseRand(prop string, seed uint64, shard, idx int) *Rand {
	var ph uint64
	for _, c := range prop {
		ph = ph*131 + uint64(c)
	}
	return NewRand(seed, ph, uint64(shard), uint64(idx))
}

// RunShard is the entry point of the test binary.
func RunShard(t *testing.T) {
	prop := os.Getenv("BW_PROP")
	mk, ok := registry[prop]
	if !ok {
		fmt.Fprintf(os.Stderr, "unknown property %q\n", prop)
		os.Exit(2)
	}
	h := mk()
	seed := uint64(envInt("BW_SEED", 1))
	tier := os.Getenv("BW_TIER")
	if tier == "" {
		tier = "quick"
	}
	mode := os.Getenv("BW_MODE")
	var jr journal
	if p := os.Getenv("BW_OUT"); p != "" {
		f, err := os.OpenFile(p, os.O_APPEND|os.O_CREATE|os.O_WRONLY, 0o644)
		if err != nil {
			fmt.Fprintln(os.Stderr, err)
			os.Exit(2)
		}
		jr = journal{f: f, w: bufio.NewWriter(f)}
		defer f.Close()
	}
	debug.SetGCPercent(200)
	switch mode {
	case "one":
		runOne(t, h, &jr)
		return
	case "shrink":
		runShrink(t, h, &jr)
		return
	case "det":
		// determinism self-test: print a hash of the complete event log of each case
		start, n := envInt("BW_START", 0), envInt("BW_MAXCASES", 64)
		for idx := start; idx < start+n; idx++ {
			c := h.Gen(caseRand(prop, seed, envInt("BW_SHARD", 0), idx), tier, idx%2 == 0)
			if d := os.Getenv("BW_DUMPLOGDIR"); d != "" {
				os.Setenv("BW_DUMPLOG", fmt.Sprintf("%s/%d.log", d, idx))
			}
			o := safeRun(h, t, c)
			jr.line("D", fmt.Sprintf("%d %s %s %s", idx, o.Verdict, o.Class, o.Det))
		}
		return
	case "gen":
		idx := envInt("BW_START", 0)
		clean := envInt("BW_CLEAN_EVERY", 2) > 0 && idx%envInt("BW_CLEAN_EVERY", 2) == 0
		jr.line("G", h.Gen(caseRand(prop, seed, envInt("BW_SHARD", 0), idx), tier, clean))
		return
	}
	shard, nshards := envInt("BW_SHARD", 0), envInt("BW_NSHARDS", 1)
	_ = nshards
	budget := time.Duration(envInt("BW_BUDGET_MS", 5000)) * time.Millisecond
	maxCases := envInt("BW_MAXCASES", 1<<30)
	start := envInt("BW_START", 0)
	cleanEvery := envInt("BW_CLEAN_EVERY", 2) // every n-th case avoids open known-finding triggers
	maxViol := envInt("BW_MAXVIOL", 40)
	sum := &summary{Prop: prop, Shard: shard, Start: start, Stats: map[string]int64{}}
	hashes := map[string]bool{}
	t0 := time.Now()
	idx := start
	// per-case watchdog (real clock, outside every bubble): see startWatchdog
	caseStart := startWatchdog()
	for ; idx < start+maxCases; idx++ {
		if time.Since(t0) > budget {
			break
		}
		clean := cleanEvery > 0 && idx%cleanEvery == 0
		c := h.Gen(caseRand(prop, seed, shard, idx), tier, clean)
		jr.line("B", strconv.Itoa(idx))
		caseStart.Store(time.Now().UnixNano())
		o := safeRun(h, t, c)
		caseStart.Store(time.Now().UnixNano())
		jr.line("E", strconv.Itoa(idx))
		sum.Cases++
		if clean {
			sum.CleanCases++
		}
		if o.Execs == 0 {
			o.Execs = 1
		}
		sum.Execs += o.Execs
		for k, v := range o.Stats {
			sum.Stats[k] += v
		}
		if o.NonTrivial {
			sum.NonTrivial++
			if o.Hash != "" && len(hashes) < 400000 {
				hashes[o.Hash] = true
			}
		}
		if len(sum.Samples) < 3 && o.NonTrivial && o.Sample != nil && idx%7 == 3 {
			sum.Samples = append(sum.Samples, o.Sample)
		}
		switch o.Verdict {
		case "violation":
			sum.Violations++
			if sum.Violations <= maxViol {
				cb, _ := json.Marshal(c)
				o.Sample = nil
				jr.line("V", violationRec{prop, shard, idx, seed, clean, cb, o})
			}
		case "infra":
			sum.Infra = append(sum.Infra, fmt.Sprintf("case %d: %s", idx, o.Detail))
			if len(sum.Infra) > 5 {
				idx++
				goto done
			}
		}
	}
done:
	sum.Next = idx
	simAgg.mergeInto(sum.Stats)
	sum.PreSites = simAgg.sites()
	sum.WallMS = time.Since(t0).Milliseconds()
	sum.HashesTotal = len(hashes)
	for k := range hashes {
		sum.Hashes = append(sum.Hashes, k)
	}
	sort.Strings(sum.Hashes)
	if len(sum.Samples) == 0 {
		// make sure at least one sample exists
		c := h.Gen(caseRand(prop, seed, shard, start), tier, true)
		sum.Samples = append(sum.Samples, c)
	}
	jr.line("S", sum)
}

// ---------------------------------------------------------------------------
// Blank node identifiers. node.NewBlankNode takes them from a goroutine that fills a 256 element channel with
// uuid.NewRandom() values; their textual order decides iteration and emission orders downstream, so a run that
// creates blank nodes and reads them back is only replayable when that source is owned. The uuid package lets its
// random source be replaced: blankRand yields bytes that are a pure function of (epoch, counter).

type detRandT struct {
	mu         sync.Mutex
	epoch, ctr uint64
}

func (d *detRandT) block(epoch, ctr uint64) [16]byte {
	var b [16]byte
	r := NewRand(epoch, ctr, 0xB1A4)
	x, y := r.U64(), r.U64()
	for i := 0; i < 8; i++ {
		b[i], b[8+i] = byte(x>>(8*uint(i))), byte(y>>(8*uint(i)))
	}
	return b
}

func (d *detRandT) Read(p []byte) (int, error) {
	d.mu.Lock()
	defer d.mu.Unlock()
	for off := 0; off < len(p); off += 16 {
		b := d.block(d.epoch, d.ctr)
		d.ctr++
		copy(p[off:], b[:])
	}
	return len(p), nil
}

// marker is the textual id of the blank node made from block (epoch, 0).
func (d *detRandT) marker(epoch uint64) string {
	b := d.block(epoch, 0)
	b[6] = (b[6] & 0x0f) | 0x40
	b[8] = (b[8] & 0x3f) | 0x80
	return uuid.UUID(b[:]).String()
}

var (
	blankRand  = &detRandT{}
	blankOnce  sync.Once
	blankFlush uint64
)

// ownBlankNodes makes the blank node ids created from now on a function of key alone: the source is switched to
// a throw-away epoch and drained until that epoch's first id shows up (everything generated earlier is gone then),
// then to the epoch derived from key and drained up to its first id.
func ownBlankNodes(key string) {
	blankOnce.Do(func() {
		time.Sleep(3 * time.Millisecond) // the generator goroutine has filled its channel and is parked in a send
		uuid.SetRand(blankRand)
	})
	var kh uint64 = 1469598103934665603
	for i := 0; i < len(key); i++ {
		kh = (kh ^ uint64(key[i])) * 1099511628211
	}
	blankFlush++
	for _, ep := range []uint64{blankFlush | 1<<63, kh &^ (1 << 63)} {
		blankRand.mu.Lock()
		blankRand.epoch, blankRand.ctr = ep, 0
		blankRand.mu.Unlock()
		want := blankRand.marker(ep)
		for n := 0; ; n++ {
			if node.NewBlankNode().ID().String() == want {
				break
			}
			if n > 100000 {
				panic("ownBlankNodes: the blank node source does not follow the installed reader")
			}
		}
	}
}

// startWatchdog watches the case in progress from outside every bubble (real clock). A case that runs longer than
// BW_CASE_TIMEOUT_S ends the process: with exit status 3 when the simulation made no progress during the last
// seconds (an un-instrumented goroutine spinning - which no scheduler can see - or a real deadlock of the harness:
// a hang), with exit status 4 when runs are still being started or steps still counted (a slow case: the step cap
// bounds it, it is not a verdict). The parent finds the open case in the journal. The caller stores the start time
// of each case in the returned value.
// progressTick is called by harnesses that do not run inside the simulator (damage enumeration, sequential store
// histories, parser histories) once per unit of work, so that the watchdog can tell a long case from a hung one.
var ticks atomic.Int64

func progressTick() { ticks.Add(1) }

func startWatchdog() *atomic.Int64 {
	var caseStart atomic.Int64
	caseStart.Store(time.Now().UnixNano())
	caseLimit := time.Duration(envInt("BW_CASE_TIMEOUT_S", 40)) * time.Second
	go func() {
		var lastRuns, lastSteps int64
		lastChange := time.Now()
		for {
			time.Sleep(250 * time.Millisecond)
			if r, s := sim.Progress(); r+ticks.Load() != lastRuns || s != lastSteps {
				lastRuns, lastSteps, lastChange = r+ticks.Load(), s, time.Now()
			}
			if time.Duration(time.Now().UnixNano()-caseStart.Load()) > caseLimit {
				if time.Since(lastChange) < 3*time.Second {
					fmt.Fprintf(os.Stderr, "bwsim watchdog: slow case, still progressing after %v (runs=%d steps=%d)\n", caseLimit, lastRuns, lastSteps)
					os.Exit(4)
				}
				fmt.Fprintf(os.Stderr, "bwsim watchdog: case did not finish within %v and made no progress for %v\n", caseLimit, time.Since(lastChange).Round(time.Second))
				os.Exit(3)
			}
		}
	}()
	return &caseStart
}

// safeRun executes a case and converts a panic in the calling goroutine into a
// violation whose class names the panicking repository function.
func safeRun(h Harness, t *testing.T, c any) (o *Outcome) {
	defer func() {
		if p := recover(); p != nil {
			st := string(debug.Stack())
			o = violation(os.Getenv("BW_PROP")+":panic:"+panicSite(st), "panic in the calling goroutine: %v\n%s", p, firstLines(st, 40))
		}
	}()
	return h.Run(t, c)
}

// panicSite extracts the first badwolf (non-harness) function of a stack trace.
func panicSite(st string) string {
	for _, ln := range strings.Split(st, "\n") {
		if i := strings.Index(ln, "github.com/google/badwolf/"); i >= 0 && !strings.Contains(ln, "/xverif/") && !strings.HasPrefix(strings.TrimSpace(ln), "/") {
			f := ln[i+len("github.com/google/badwolf/"):]
			if j := strings.LastIndex(f, "("); j > 0 {
				f = f[:j]
			}
			return f
		}
	}
	return "?"
}

func firstLines(s string, n int) string {
	ls := strings.Split(s, "\n")
	if len(ls) > n {
		ls = ls[:n]
	}
	return strings.Join(ls, "\n")
}

func readCase(h Harness) (any, []byte) {
	b, err := os.ReadFile(os.Getenv("BW_CASE"))
	if err != nil {
		fmt.Fprintln(os.Stderr, err)
		os.Exit(2)
	}
	// accept either a bare case or a violation record / replay file with a "case" member
	var wrap struct {
		Case json.RawMessage `json:"case"`
	}
	if json.Unmarshal(b, &wrap) == nil && len(wrap.Case) > 0 {
		b = wrap.Case
	}
	c, err := h.Decode(b)
	if err != nil {
		fmt.Fprintln(os.Stderr, "decode case:", err)
		os.Exit(2)
	}
	return c, b
}

// runOne executes one case from a file BW_REPEAT times and prints the outcome.
func runOne(t *testing.T, h Harness, jr *journal) {
	c, _ := readCase(h)
	startWatchdog()
	rep := envInt("BW_REPEAT", 1)
	var o *Outcome
	for i := 0; i < rep; i++ {
		jr.line("B", "0")
		o = safeRun(h, t, c)
		jr.line("E", "0")
		if o.Verdict != "ok" {
			break
		}
	}
	jr.line("O", o)
}

// classKey is what must be preserved while shrinking: the violation class up to
// its variable tail (classes are "clause:signature").
func classKey(o *Outcome) string {
	if o == nil || o.Verdict != "violation" {
		return ""
	}
	return o.Class
}

// runShrink greedily minimises a failing case while the same violation class
// persists, then prints the minimised case and its outcome.
func runShrink(t *testing.T, h Harness, jr *journal) {
	c, _ := readCase(h)
	deadline := time.Now().Add(time.Duration(envInt("BW_BUDGET_MS", 20000)) * time.Millisecond)
	jr.line("B", "0")
	o := safeRun(h, t, c)
	jr.line("E", "0")
	want := classKey(o)
	steps := 0
	if want != "" {
		for improved := true; improved && time.Now().Before(deadline); {
			improved = false
			for _, cand := range h.Shrink(c) {
				if time.Now().After(deadline) {
					break
				}
				jr.line("B", "0")
				oc := safeRun(h, t, cand)
				jr.line("E", "0")
				if classKey(oc) == want {
					c, o, improved = cand, oc, true
					steps++
					break
				}
			}
		}
	}
	cb, _ := json.Marshal(c)
	jr.line("M", map[string]any{"case": json.RawMessage(cb), "outcome": o, "shrink_steps": steps})
}

func joinLines(ss []string, max int) string {
	if len(ss) > max {
		ss = append(ss[:max:max], fmt.Sprintf("... (%d more)", len(ss)-max))
	}
	return strings.Join(ss, "\n")
}

func stackOf() []byte { return debug.Stack() }
