package harness

import (
	"context"
	"os"
	"encoding/json"
	"fmt"
	"sort"
	"strings"
	"testing"

	"github.com/google/badwolf/bql/table"
	"github.com/google/badwolf/storage"
	"github.com/google/badwolf/storage/memoization"
	"github.com/google/badwolf/storage/memory"
	"github.com/google/badwolf/tools/vcli/bw/server"
	"github.com/google/badwolf/triple"
	"github.com/google/badwolf/xverif/sim"
)

// C20: storage driver failures must surface as errors - never success, a hang
// or a leaked goroutine. For every statement of a seeded corpus: one fault-free
// run under tape T records the driver call trace; then, under the SAME tape,
// one run per (call position, failure mode) with that single fault injected.

func init() { register("C20", func() Harness { return &faultHarness{} }) }

type ExecKnobs struct {
	Memo     bool   `json:"memo,omitempty"` // planner -> memoization -> simstore -> memory
	ChanSize int    `json:"chan"`
	BulkSize int    `json:"bulk"`
	Sched    uint64 `json:"sched"`
	Permute  bool   `json:"permute,omitempty"`
	Pace     int    `json:"pace,omitempty"`
	Preempt  int    `json:"preempt,omitempty"`
	Procs    int    `json:"procs,omitempty"` // what the engine sees as GOMAXPROCS
	Direct   bool   `json:"direct,omitempty"`   // the simulated driver forwards lookups with the engine's own channel (the real driver's channel / lock behaviour is not shielded); only call-level faults
	Slow     *FaultSpec `json:"slow,omitempty"` // a driver call of the statement that is slow in simulated time (never failing); applied when no fault plan is given
	// Cancel: the caller's context is cancelled during this driver call (at its start, or after J elements of a stream).
	// Applied when no fault plan is given and the store is built for this execution. A cancelled statement may fail;
	// then it is executed again without the cancellation and that run is judged. If it reports success although it was
	// cancelled, its result is judged like any other: a table handed to the caller is the answer, cancelled or not.
	Cancel   *FaultSpec `json:"cancel,omitempty"`
	CtxAware bool   `json:"ctxaware,omitempty"` // the simulated driver returns ctx.Err() once its context is done (a remote driver); off: it ignores the context like storage/memory
}

type FaultCase struct {
	Graphs []GraphData `json:"graphs"`
	Stmt   *Stmt       `json:"stmt"`
	Text   string      `json:"text"`
	Knobs  ExecKnobs   `json:"knobs"`
	Faults []FaultSpec `json:"faults,omitempty"` // explicit fault set (replay / minimised); empty = enumerate
	Double int         `json:"double,omitempty"` // number of sampled double faults
	AllJ   bool        `json:"allj,omitempty"`   // fail streaming calls after EVERY j <= delivered (thorough tier)
}

type faultHarness struct{}

func (h *faultHarness) Decode(b []byte) (any, error) {
	c := &FaultCase{}
	if err := json.Unmarshal(b, c); err != nil {
		return nil, err
	}
	if c.Stmt != nil && c.Text == "" {
		c.Text = c.Stmt.Text()
	}
	return c, nil
}

func genKnobs(r *Rand) ExecKnobs {
	k := genKnobs0(r)
	if r.Chance(0.1) {
		// slowness is not failure: whatever is judged about the statement holds with one of its driver calls slow
		k.Slow = &FaultSpec{Call: r.Intn(6), Mode: []string{"slow", "slowmid"}[r.Intn(2)], J: r.Intn(8)}
	} else if r.Chance(0.1) {
		k.Cancel = &FaultSpec{Call: r.Intn(8), Mode: "cancel", J: r.Intn(4)}
	}
	return k
}

func genKnobs0(r *Rand) ExecKnobs {
	return ExecKnobs{Memo: r.Chance(0.4), ChanSize: []int{0, 0, 1, 2, 7}[r.Intn(5)], BulkSize: []int{1, 2, 3, 10}[r.Intn(4)],
		Sched: r.U64(), Permute: r.Bool(), Pace: r.Intn(3), Preempt: r.Intn(3), Procs: []int{1, 1, 2, 2, 4, 4, 16, 16, 3, 6, 8, 12, 24, 32}[r.Intn(14)], CtxAware: r.Chance(0.4), Direct: r.Chance(0.25)}
}

func (h *faultHarness) Gen(r *Rand, tier string, clean bool) any {
	u := genUniverse(r, r.Range(4, 10), false, false)
	c := &FaultCase{Graphs: genGraphs(r, u, 3), Knobs: genKnobs0(r)}
	o := sopts{qopts: qopts{clean: true, maxClauses: 3, optional: 0.25, aliases: 0.2, bounds: 0.5}, group: 0.2, order: 0.2, limit: 0.2, global: 0.15, missing: 0.03}
	c.Stmt = genStmt(r, u, graphNames(c.Graphs), o, []int{40, 10, 10, 4, 4, 14, 10, 4})
	c.Text = c.Stmt.Text()
	c.Double = r.Intn(3)
	if tier == "thorough" {
		c.Double, c.AllJ = r.Intn(6), true
	}
	return c
}

func (h *faultHarness) Shrink(ci any) []any {
	c := ci.(*FaultCase)
	var out []any
	for g := range c.Graphs {
		for i := range c.Graphs[g].Ts {
			d := *c
			d.Graphs = append([]GraphData{}, c.Graphs...)
			d.Graphs[g].Ts = append(append([]TSpec{}, c.Graphs[g].Ts[:i]...), c.Graphs[g].Ts[i+1:]...)
			out = append(out, &d)
		}
	}
	if c.Knobs.Memo {
		d := *c
		d.Knobs.Memo = false
		out = append(out, &d)
	}
	if c.Knobs.Pace != 0 || c.Knobs.Permute || c.Knobs.Preempt != 0 {
		d := *c
		d.Knobs.Pace, d.Knobs.Permute, d.Knobs.Preempt = 0, false, 0
		out = append(out, &d)
	}
	if c.Knobs.ChanSize != 0 {
		d := *c
		d.Knobs.ChanSize = 0
		out = append(out, &d)
	}
	if c.Knobs.CtxAware {
		d := *c
		d.Knobs.CtxAware = false
		out = append(out, &d)
	}
	return out
}

// execResult is what one simulated execution of a statement observed.
type execResult struct {
	tbl     *table.Table
	err     error
	done    bool
	panicV  string
	trace   []*callRec
	fired   map[string]int
	res     *sim.Result
	bubble  string
	tapeRec []uint32
	failed  int // driver calls that returned an error to the engine
	probes  map[string]int
	inflightAtReturn int // driver calls still in flight at the moment the statement returned to its caller
}

func buildStore(ctx context.Context, gs []GraphData) storage.Store {
	st := memory.NewStore()
	for _, g := range gs {
		gr, err := st.NewGraph(ctx, g.Name)
		if err != nil {
			panic(err)
		}
		var ts []*triple.Triple
		for _, s := range g.Ts {
			ts = append(ts, s.Triple())
		}
		if err := gr.AddTriples(ctx, ts); err != nil {
			panic(err)
		}
	}
	return st
}

// execSeq counts the statements executed over a shared store within one case (reset by the harness per case).
var execSeq int

// execStatement runs text through the server.BQL pipeline inside a simulated
// run over the simulated driver.
func execStatement(t *testing.T, gs []GraphData, text string, k ExecKnobs, faults []FaultSpec, inner storage.Store) *execResult {
	if faults == nil && inner == nil && k.Cancel != nil {
		er := execStatement1(t, gs, text, k, []FaultSpec{*k.Cancel}, nil)
		if er.res == nil || er.fired["caller_cancel"] == 0 {
			return er
		}
		simAgg.stats["fault_knob_caller_cancel"]++
		if er.done && er.err != nil && er.panicV == "" && len(er.res.Panics) == 0 && !er.res.Deadlock && !er.res.StepCap {
			// the cancelled statement failed, as it may: judge the same statement without the cancellation
			simAgg.stats["probe_cancelled_statement_failed_and_was_rerun"]++
			k.Cancel = nil
			return execStatement1(t, gs, text, k, nil, nil)
		}
		if er.done && er.err == nil {
			simAgg.stats["probe_cancelled_statement_reported_success_and_was_judged"]++
		}
		return er
	}
	return execStatement1(t, gs, text, k, faults, inner)
}

func execStatement1(t *testing.T, gs []GraphData, text string, k ExecKnobs, faults []FaultSpec, inner storage.Store) *execResult {
	er := &execResult{}
	// blank node ids are a function of the statement, its knobs and (for histories over one store) its position
	seqKey := 0
	if inner != nil {
		execSeq++
		seqKey = execSeq
	}
	ownBlankNodes(fmt.Sprint(text, k.Sched, seqKey))
	tape := sim.NewTape(k.Sched)
	sim.SetMapSeed(k.Sched | 1)
	sim.SetProcs(k.Procs)
	cfg := sim.Config{Preempt: k.Preempt, PreemptMean: 200, MaxSteps: int64(envInt("BW_MAXSTEPS", 6000000)), Trace: traceOn}
	var ss *simStore
	er.res, er.bubble = simRun(t, tape, cfg, func(r *sim.Runtime) {
		// the context lives inside the bubble (its done channel must not be closed from outside); it is never
		// cancelled unless a "cancel" fault fires
		ctx, cancel := context.WithCancel(context.Background())
		if inner == nil {
			inner = buildStore(ctx, gs)
		}
		if faults == nil && k.Slow != nil && !k.Direct {
			faults = []FaultSpec{*k.Slow}
		}
		ss = newSimStore(inner, simStoreCfg{Permute: k.Permute, Pace: k.Pace, Faults: faults, CtxAware: k.CtxAware, Cancel: cancel, Transparent: k.Direct})
		var st storage.Store = ss
		if k.Memo {
			st = memoization.New(ss)
		}
		r.Client("stmt", func() {
			defer func() {
				if p := recover(); p != nil {
					er.panicV = fmt.Sprint(p) + "\n" + string(stackOf())
				}
			}()
			er.tbl, er.err = server.BQL(ctx, text, st, k.ChanSize, k.BulkSize)
			ss.mu.Lock()
			er.inflightAtReturn = ss.inflight
			ss.mu.Unlock()
			er.done = true
		})
	})
	if ss != nil {
		if k.Slow != nil && len(ss.cfg.Faults) == 1 && ss.cfg.Faults[0] == *k.Slow {
			// the slow call came from the execution knobs, not from a harness that counts its own faults
			for kind, n := range ss.fired {
				simAgg.stats["fault_knob_"+kind] += int64(n)
			}
		}
		er.trace, er.fired, er.failed, er.probes = ss.trace, ss.fired, ss.failed, ss.probes
	}
	er.tapeRec = tape.Rec
	if p := os.Getenv("BW_DUMPLOG"); p != "" && er.res != nil {
		f, _ := os.OpenFile(p, os.O_APPEND|os.O_CREATE|os.O_WRONLY, 0o644)
		fmt.Fprintf(f, "==== exec faults=%s\n%s\n-- trace\n%s-- err=%v steps=%d\n", jsonStr(faults), strings.Join(er.res.Log, "\n"), traceSig(er.trace, 1<<30), er.err, er.res.Steps)
		f.Close()
	}
	return er
}

func traceSig(tr []*callRec, upto int) string {
	var b strings.Builder
	for i := 0; i < upto && i < len(tr); i++ {
		b.WriteString(tr[i].Method + " " + tr[i].Desc + "\n")
	}
	return b.String()
}

func (h *faultHarness) Run(t *testing.T, ci any) *Outcome {
	c := ci.(*FaultCase)
	o := okOutcome()
	kind := "raw"
	if c.Stmt != nil {
		kind = c.Stmt.Kind
	}
	base := execStatement(t, c.Graphs, c.Text, c.Knobs, nil, nil)
	o.Execs = 1
	if base.res == nil {
		return infra("no result: %s", base.bubble)
	}
	o.stat("steps", base.res.Steps)
	if base.res.Hazard != "" {
		return infra("scheduler hazard: %s", base.res.Hazard)
	}
	var dets []string
	dets = append(dets, detHash(base.res.Log, base.tapeRec, traceSig(base.trace, 1<<30), fmt.Sprint(base.err)))
	// The fault-free run itself must be well behaved (C08 judges that in depth; here it is a precondition).
	if v := h.judge(c, kind, base, nil); v != nil {
		v.Class = strings.Replace(v.Class, "C20:", "C20:fault-free:", 1)
		return v
	}
	o.stat("driver_calls", int64(len(base.trace)))
	// fault plan
	var plans [][]FaultSpec
	if len(c.Faults) > 0 {
		plans = append(plans, c.Faults)
	} else {
		for _, rec := range base.trace {
			if !rec.Stream {
				plans = append(plans, []FaultSpec{{Call: rec.Idx, Mode: "fail"}})
				continue
			}
			plans = append(plans, []FaultSpec{{Call: rec.Idx, Mode: "before"}})
			js := map[int]bool{}
			for _, j := range []int{1, 2, rec.Delivered / 2, rec.Delivered - 1, rec.Delivered} {
				if j >= 1 && j <= rec.Delivered && !js[j] {
					js[j] = true
				}
			}
			if c.AllJ {
				for j := 1; j <= rec.Delivered; j++ {
					js[j] = true
				}
			}
			var jl []int
			for j := range js {
				jl = append(jl, j)
			}
			sort.Ints(jl)
			for _, j := range jl {
				if !c.Knobs.Direct {
					plans = append(plans, []FaultSpec{{Call: rec.Idx, Mode: "after", J: j}})
				}
			}
			// the same failure reported late: the driver closes its channel first and returns the error two simulated
			// seconds afterwards (a driver that rolls back or tears down before it returns)
			if !c.Knobs.Direct && rec.Delivered > 0 {
				plans = append(plans, []FaultSpec{{Call: rec.Idx, Mode: "afterlate", J: (rec.Delivered + 1) / 2}})
			}
		}
		// the caller's context is cancelled while call k is in flight (at its start, or after j elements of a stream)
		for _, rec := range base.trace {
			plans = append(plans, []FaultSpec{{Call: rec.Idx, Mode: "cancel"}})
			if rec.Stream && rec.Delivered > 0 {
				js := []int{1, rec.Delivered}
				if c.AllJ {
					js = nil
					for j := 1; j <= rec.Delivered; j++ {
						js = append(js, j)
					}
				}
				for i, j := range js {
					if i == 0 || j != js[0] {
						plans = append(plans, []FaultSpec{{Call: rec.Idx, Mode: "cancel", J: j}})
					}
				}
			}
		}
		// slowness is not failure: a driver call that takes simulated seconds to start answering, or streams slowly
		if !c.Knobs.Direct {
			slowed := 0
			for _, rec := range base.trace {
				if slowed >= 6 && !rec.Write {
					continue // every write call, and the first six calls of any kind
				}
				plans = append(plans, []FaultSpec{{Call: rec.Idx, Mode: "slow", J: int(c.Knobs.Sched>>uint(rec.Idx%32)) % 6}})
				slowed++
				if rec.Stream && rec.Delivered > 0 {
					plans = append(plans, []FaultSpec{{Call: rec.Idx, Mode: "slowmid"}})
				}
			}
		}
		// sampled double faults
		rr := NewRand(c.Knobs.Sched, 77)
		single := len(plans)
		for d := 0; d < c.Double && single >= 2; d++ {
			a, b := plans[rr.Intn(single)][0], plans[rr.Intn(single)][0]
			if a.Call != b.Call {
				plans = append(plans, []FaultSpec{a, b})
			}
		}
	}
	fired := 0
	for _, plan := range plans {
		er := execStatement(t, c.Graphs, c.Text, c.Knobs, plan, nil)
		o.Execs++
		if er.res == nil {
			return infra("no result: %s", er.bubble)
		}
		o.stat("steps", er.res.Steps)
		if er.res.Hazard != "" {
			return infra("scheduler hazard: %s", er.res.Hazard)
		}
		first := plan[0].Call
		for _, f := range plan {
			if f.Call < first {
				first = f.Call
			}
		}
		if len(c.Faults) == 0 && traceSig(er.trace, first+1) != traceSig(base.trace, first+1) {
			return infra("the driver call trace up to the fault position differs from the fault-free run under the same tape:\n%s---\n%s", traceSig(base.trace, first+1), traceSig(er.trace, first+1))
		}
		dets = append(dets, detHash(er.res.Log, er.tapeRec, traceSig(er.trace, 1<<30), fmt.Sprint(er.err)))
		for k, n := range er.fired {
			o.stat("fault_"+k, int64(n))
			fired += n
		}
		for k, n := range er.probes {
			o.stat("probe_"+k, int64(n))
		}
		if er.err != nil && er.res.MaxRunnable >= 3 {
			o.stat("probe_failed_statement_had_3_or_more_runnable_tasks", 1)
		}
		if len(er.fired) == 0 {
			o.stat("fault_planned_not_reached", 1)
			continue
		}
		if slowOnly(plan) {
			if v := h.judgeSlow(c, kind, base, er, plan); v != nil {
				d := *c
				d.Faults = plan
				cb, _ := json.Marshal(d)
				v.Detail += "\nfault plan: " + jsonStr(plan) + "\nreplay case with the fault pinned: " + string(cb)
				v.Stats, v.Execs = o.Stats, o.Execs
				return v
			}
			continue
		}
		if v := h.judge(c, kind, er, plan); v != nil {
			d := *c
			d.Faults = plan
			cb, _ := json.Marshal(d)
			v.Detail += "\nfault plan: " + jsonStr(plan) + "\nreplay case with the fault pinned: " + string(cb)
			v.Stats, v.Execs = o.Stats, o.Execs
			return v
		}
	}
	o.NonTrivial = fired > 0
	o.Hash = hashStr(c.Text + jsonStr(c.Graphs) + fmt.Sprint(c.Knobs))
	o.Det = hashStr(strings.Join(dets, ""))
	o.Sample = map[string]any{"statement": c.Text, "graphs": renderGraphs(c.Graphs), "knobs": c.Knobs, "driver_calls": len(base.trace), "fault_runs": len(plans)}
	return o
}

func renderGraphs(gs []GraphData) map[string][]string {
	m := map[string][]string{}
	for _, g := range gs {
		m[g.Name] = []string{}
		for _, t := range g.Ts {
			m[g.Name] = append(m[g.Name], t.String())
		}
	}
	return m
}

func slowOnly(plan []FaultSpec) bool {
	for _, f := range plan {
		if f.Mode != "slow" && f.Mode != "slowmid" {
			return false
		}
	}
	return len(plan) > 0
}

// judgeSlow: a driver that is slow but does not fail is not a failing driver - the statement behaves as in the
// fault-free run (same success / failure, for SELECT the same rows), returns and leaves nothing behind.
func (h *faultHarness) judgeSlow(c *FaultCase, kind string, base, er *execResult, plan []FaultSpec) *Outcome {
	if v := h.judge(c, kind, er, nil); v != nil {
		v.Class = strings.Replace(v.Class, ":fault-free", ":slow-driver", 1)
		return v
	}
	mk := func(cls, f string, a ...any) *Outcome {
		v := violation("C20:slow-driver:"+cls+":"+kind, f, a...)
		v.Detail = "statement: " + c.Text + "\n" + v.Detail
		return v
	}
	if (er.err == nil) != (base.err == nil) {
		return mk("outcome-differs", "with a slow (not failing) driver call the statement returns err=%v, without it err=%v", er.err, base.err)
	}
	if er.err == nil && kind == "select" && base.tbl != nil && er.tbl != nil {
		a, b := tableRowsText(base.tbl), tableRowsText(er.tbl)
		if c.Stmt != nil && c.Stmt.Q != nil && c.Stmt.Q.Limit != "" {
			// LIMIT without a total order may return any n of the qualifying rows (C12): which ones arrive first is
			// exactly what a slow call changes. Only the number of rows is comparable.
			if len(a) != len(b) {
				return mk("row-count-differs", "with a slow (not failing) driver call the statement returns %d rows instead of %d", len(b), len(a))
			}
			return nil
		}
		if !equalStrings(a, b) {
			extra, missing := multisetDiff(b, a)
			return mk("rows-differ", "with a slow (not failing) driver call the rows differ: extra=%q missing=%q", extra, missing)
		}
	}
	return nil
}

// tableRowsText renders the rows of a table as sorted strings (blank node ids canonicalised).
func tableRowsText(t *table.Table) []string {
	var out []string
	bs := append([]string{}, t.Bindings()...)
	sort.Strings(bs)
	for _, r := range t.Rows() {
		var parts []string
		for _, b := range bs {
			parts = append(parts, b+"="+fmt.Sprint(r[b]))
		}
		out = append(out, volatileRe.ReplaceAllString(strings.Join(parts, " "), "X"))
	}
	sort.Strings(out)
	return out
}

// judge applies the C20 oracle to one execution. plan == nil: fault-free run.
func (h *faultHarness) judge(c *FaultCase, kind string, er *execResult, plan []FaultSpec) *Outcome {
	what := "fault-free"
	if plan != nil {
		var ms []string
		for _, f := range plan {
			m := "?"
			if f.Call < len(er.trace) {
				m = er.trace[f.Call].Method
			}
			mode := f.Mode
			ms = append(ms, m+"/"+mode)
		}
		sort.Strings(ms)
		what = strings.Join(ms, "+")
	}
	mk := func(cls, f string, a ...any) *Outcome {
		v := violation("C20:"+cls+":"+kind+":"+what, f, a...)
		v.Detail = "statement: " + c.Text + "\n" + v.Detail
		return v
	}
	if er.panicV != "" {
		return mk("panic:"+panicSite(er.panicV), "panic in the calling goroutine: %s", firstLines(er.panicV, 30))
	}
	if len(er.res.Panics) > 0 {
		return mk("panic:"+panicSite(er.res.Panics[0]), "panic in a goroutine of the engine: %s", firstLines(er.res.Panics[0], 30))
	}
	if er.res.StepCap {
		return mk("no-progress", "step cap reached after %d steps: %s", er.res.Steps, joinLines(er.res.Stuck, 8))
	}
	if !er.done || er.res.Deadlock {
		return mk("hang", "Execute did not return: no runnable task left\n%s\n%s", joinLines(er.res.Stuck, 8), er.res.LeakDump)
	}
	if er.inflightAtReturn > 0 {
		return mk("driver-call-outlives-statement", "the statement returned to its caller while %d storage driver call(s) it had started were still in flight (a goroutine of the call was still inside the driver)", er.inflightAtReturn)
	}
	if er.res.Leaked > 0 {
		return mk("goroutine-left", "%d goroutine(s) started for the call are still there after it returned:\n%s", er.res.Leaked, er.res.LeakDump)
	}
	if er.bubble != "" {
		return mk("goroutine-left", "bubble end: %s", er.bubble)
	}
	if er.err == nil && er.tbl == nil {
		return mk("nil-table-nil-error", "Execute returned (nil, nil)")
	}
	if plan != nil && er.failed > 0 && er.err == nil {
		return mk("fault-swallowed", "a driver call failed (%v) but the statement reported success with a table of %d rows", er.fired, er.tbl.NumRows())
	}
	return nil
}
