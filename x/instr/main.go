// Command instr rewrites Go source files of a *scratch copy* of the repository
// so that a seeded scheduler (package sim) owns every interleaving:
//
//   - sim.Yield(site) before every statement of every function body,
//   - sim.BeforeGo(site) before every go statement and every x.Go(...) call,
//   - defer sim.GoExit() at the top of every goroutine body,
//   - sync.Mutex / sync.RWMutex in type positions become sim.Mutex / sim.RWMutex.
//
// Usage: instr -sim <import path of sim> -sites <out.json> file.go...
// Files are rewritten in place. Nothing under /repo is ever touched.
package main

import (
	"bytes"
	"encoding/json"
	"flag"
	"fmt"
	"go/ast"
	"go/importer"
	"go/parser"
	"go/printer"
	"go/token"
	"go/types"
	"os"
	"path/filepath"
	"strconv"
	"strings"
)

var (
	simPath  = flag.String("sim", "github.com/google/badwolf/xverif/sim", "import path of the sim package")
	sitesOut = flag.String("sites", "", "write site table (json) here")
	mapsOnly = flag.String("mapsonly", "", "comma separated files that only get their map ranges rewritten (no yields)")
	reimport = flag.String("reimport", "", "comma separated old=new import path rewrites applied to every processed file")
	lockset  = flag.String("lockset", "", "comma separated files in which accesses to mutex-guarded struct fields are reported to the simulator (lock discipline)")
	pools    = flag.Bool("pools", false, "sync.Pool becomes xsim.Pool (a free list the simulator owns and can reset)")
	skipInit = flag.Bool("skipinit", false, "do not instrument func init (goroutines started at program initialisation live outside every run)")
)

type site struct {
	ID   int    `json:"id"`
	File string `json:"file"`
	Line int    `json:"line"`
	Kind string `json:"kind"`
}

var (
	sites  []site
	nextID = 1
	fset   = token.NewFileSet()
)

func newSite(pos token.Pos, kind string) *ast.BasicLit {
	p := fset.Position(pos)
	sites = append(sites, site{nextID, p.Filename, p.Line, kind})
	l := &ast.BasicLit{Kind: token.INT, Value: strconv.Itoa(nextID)}
	nextID++
	return l
}

func call(fn string, args ...ast.Expr) *ast.CallExpr {
	return &ast.CallExpr{Fun: &ast.SelectorExpr{X: ast.NewIdent("xsim"), Sel: ast.NewIdent(fn)}, Args: args}
}

func yieldStmt(pos token.Pos) ast.Stmt {
	return &ast.ExprStmt{X: call("Yield", newSite(pos, "yield"))}
}

func beforeGoStmt(pos token.Pos) ast.Stmt {
	return &ast.ExprStmt{X: call("BeforeGo", newSite(pos, "go"))}
}

func goExitDefer() ast.Stmt { return &ast.DeferStmt{Call: call("GoExit")} }

// isGoCall reports whether s is an expression statement of the form x.Go(f).
func isGoCall(s ast.Stmt) (*ast.CallExpr, bool) {
	es, ok := s.(*ast.ExprStmt)
	if !ok {
		return nil, false
	}
	ce, ok := es.X.(*ast.CallExpr)
	if !ok {
		return nil, false
	}
	sel, ok := ce.Fun.(*ast.SelectorExpr)
	if !ok || sel.Sel.Name != "Go" || len(ce.Args) != 1 {
		return nil, false
	}
	return ce, true
}

// simpleExpr: evaluating it later (inside a closure) instead of now cannot
// change the meaning here (identifiers and field selections only).
func simpleExpr(e ast.Expr) bool {
	switch v := e.(type) {
	case *ast.Ident:
		return true
	case *ast.SelectorExpr:
		return simpleExpr(v.X)
	case *ast.BasicLit:
		return true
	}
	return false
}

func markGoroutineBody(fl *ast.FuncLit) {
	fl.Body.List = append([]ast.Stmt{goExitDefer()}, fl.Body.List...)
}

// ---------------------------------------------------------------------------
// Lock discipline (-lockset). In a struct that has a field of type sync.Mutex / sync.RWMutex, the map-typed fields
// and the fields declared after the mutex are taken to be guarded by it (the convention of storage/memory and
// storage/memoization). Before every statement whose own expressions (not its nested blocks) select such a field
// of a plain identifier x, `x.<mutex>.Touch(write, site)` is inserted; the simulator checks at run time whether
// the calling task holds that lock in the required mode.

var (
	guardedBy = map[string]string{} // field name -> mutex field name (per file, field names are unique enough here)
	locksetOn bool
	curInfo   *types.Info
	// aliases: local variables of map type that were assigned from a guarded field (x.f or x.f[k]) somewhere in the
	// file: object -> (receiver identifier, mutex field). Reading or writing through them is an access to guarded data.
	aliases = map[types.Object][2]string{}
)

// collectAliases finds `v := x.f[k]` / `v, ok := x.f[k]` / `v = x.f` where v has map type.
func collectAliases(f *ast.File, info *types.Info) {
	aliases = map[types.Object][2]string{}
	if info == nil {
		return
	}
	guardOf := func(e ast.Expr) (string, string, bool) {
		for {
			switch v := e.(type) {
			case *ast.IndexExpr:
				e = v.X
				continue
			case *ast.SelectorExpr:
				if id, ok := v.X.(*ast.Ident); ok {
					if mu, ok := guardedBy[v.Sel.Name]; ok {
						return id.Name, mu, true
					}
				}
			}
			return "", "", false
		}
	}
	ast.Inspect(f, func(n ast.Node) bool {
		as, ok := n.(*ast.AssignStmt)
		if !ok || len(as.Rhs) != 1 || len(as.Lhs) == 0 {
			return true
		}
		recv, mu, ok := guardOf(as.Rhs[0])
		if !ok {
			return true
		}
		id, ok := as.Lhs[0].(*ast.Ident)
		if !ok || id.Name == "_" {
			return true
		}
		obj := info.Defs[id]
		if obj == nil {
			obj = info.Uses[id]
		}
		if obj == nil {
			return true
		}
		if _, isMap := obj.Type().Underlying().(*types.Map); isMap {
			aliases[obj] = [2]string{recv, mu}
		}
		return true
	})
}

func collectGuarded(f *ast.File) {
	guardedBy = map[string]string{}
	ast.Inspect(f, func(n ast.Node) bool {
		st, ok := n.(*ast.StructType)
		if !ok {
			return true
		}
		mu := ""
		after := false
		var cand []string
		for _, fld := range st.Fields.List {
			isMu := false
			if se, ok := fld.Type.(*ast.SelectorExpr); ok {
				if id, ok := se.X.(*ast.Ident); ok && (id.Name == "sync" || id.Name == "xsim") && (se.Sel.Name == "Mutex" || se.Sel.Name == "RWMutex") && len(fld.Names) == 1 {
					mu, isMu, after = fld.Names[0].Name, true, true
				}
			}
			if isMu {
				continue
			}
			_, isMap := fld.Type.(*ast.MapType)
			for _, nm := range fld.Names {
				if isMap || after {
					cand = append(cand, nm.Name)
				}
			}
		}
		if mu != "" {
			for _, c := range cand {
				guardedBy[c] = mu
			}
		}
		return true
	})
}

// ownExprs returns the expressions a statement evaluates itself (its nested blocks are other statement lists).
func ownExprs(s ast.Stmt) (exprs []ast.Expr, lhs []ast.Expr) {
	switch v := s.(type) {
	case *ast.AssignStmt:
		return v.Rhs, v.Lhs
	case *ast.ExprStmt:
		return []ast.Expr{v.X}, nil
	case *ast.IncDecStmt:
		return nil, []ast.Expr{v.X}
	case *ast.ReturnStmt:
		return v.Results, nil
	case *ast.IfStmt:
		var e, l []ast.Expr
		if v.Init != nil {
			e, l = ownExprs(v.Init)
		}
		return append(e, v.Cond), l
	case *ast.ForStmt:
		var e, l []ast.Expr
		if v.Init != nil {
			e, l = ownExprs(v.Init)
		}
		if v.Cond != nil {
			e = append(e, v.Cond)
		}
		return e, l
	case *ast.RangeStmt:
		return []ast.Expr{v.X}, nil
	case *ast.SwitchStmt:
		var e, l []ast.Expr
		if v.Init != nil {
			e, l = ownExprs(v.Init)
		}
		if v.Tag != nil {
			e = append(e, v.Tag)
		}
		return e, l
	case *ast.SendStmt:
		return []ast.Expr{v.Chan, v.Value}, nil
	case *ast.DeferStmt:
		return v.Call.Args, nil
	}
	return nil, nil
}

// hasField: the identifier's (struct or pointer-to-struct) type has a field of that name. Field names repeat across
// structs (a helper struct may have an `idx` of its own without any mutex); without type information nothing is emitted.
func hasField(id *ast.Ident, field string) bool {
	if curInfo == nil {
		return false
	}
	obj := curInfo.Uses[id]
	if obj == nil {
		obj = curInfo.Defs[id]
	}
	if obj == nil || obj.Type() == nil {
		return false
	}
	t := obj.Type()
	if p, ok := t.Underlying().(*types.Pointer); ok {
		t = p.Elem()
	}
	st, ok := t.Underlying().(*types.Struct)
	if !ok {
		return false
	}
	for i := 0; i < st.NumFields(); i++ {
		if st.Field(i).Name() == field {
			return true
		}
	}
	return false
}

// touches lists the (receiver identifier, mutex field, write) triples a statement needs.
func touches(s ast.Stmt) (out [][3]string) {
	if !locksetOn || len(guardedBy) == 0 {
		return nil
	}
	exprs, lhs := ownExprs(s)
	seen := map[string]bool{}
	scan := func(e ast.Expr, write bool) {
		if e == nil {
			return
		}
		ast.Inspect(e, func(n ast.Node) bool {
			if _, ok := n.(*ast.FuncLit); ok {
				return false
			}
			if aid, ok := n.(*ast.Ident); ok && curInfo != nil {
				if al, ok := aliases[curInfo.Uses[aid]]; ok {
					w := "r"
					if write {
						w = "w"
					}
					if k := al[0] + "." + al[1] + "." + w; !seen[k] {
						seen[k] = true
						out = append(out, [3]string{al[0], al[1], w})
					}
				}
				return true
			}
			se, ok := n.(*ast.SelectorExpr)
			if !ok {
				return true
			}
			id, ok := se.X.(*ast.Ident)
			if !ok {
				return true
			}
			mu, ok := guardedBy[se.Sel.Name]
			if !ok || !hasField(id, mu) {
				return true
			}
			w := "r"
			if write {
				w = "w"
			}
			// delete(x.f[...], k) and delete(x.f, k) write
			k := id.Name + "." + mu + "." + w
			if !seen[k] {
				seen[k] = true
				out = append(out, [3]string{id.Name, mu, w})
			}
			return true
		})
	}
	for _, e := range exprs {
		write := false
		if ce, ok := e.(*ast.CallExpr); ok {
			if fn, ok := ce.Fun.(*ast.Ident); ok && fn.Name == "delete" {
				write = true
			}
		}
		scan(e, write)
	}
	for _, e := range lhs {
		// x.f = v, x.f[k] = v, x.f[k][j] = v: writes; a plain local on the left is not ours
		scan(e, true)
	}
	return out
}

func touchStmts(s ast.Stmt) []ast.Stmt {
	var out []ast.Stmt
	for _, t := range touches(s) {
		w := "false"
		if t[2] == "w" {
			w = "true"
		}
		out = append(out, &ast.ExprStmt{X: &ast.CallExpr{
			Fun:  &ast.SelectorExpr{X: &ast.SelectorExpr{X: ast.NewIdent(t[0]), Sel: ast.NewIdent(t[1])}, Sel: ast.NewIdent("Touch")},
			Args: []ast.Expr{ast.NewIdent(w), newSite(s.Pos(), "touch")},
		}})
	}
	return out
}

// rewriteList instruments one statement list.
func rewriteList(list []ast.Stmt) []ast.Stmt {
	out := make([]ast.Stmt, 0, 2*len(list))
	for _, s := range list {
		switch v := s.(type) {
		case *ast.GoStmt:
			out = append(out, beforeGoStmt(v.Pos()))
			if fl, ok := v.Call.Fun.(*ast.FuncLit); ok {
				markGoroutineBody(fl)
			} else {
				ok := simpleExpr(v.Call.Fun)
				for _, a := range v.Call.Args {
					ok = ok && simpleExpr(a)
				}
				if ok {
					inner := &ast.ExprStmt{X: v.Call}
					v.Call = &ast.CallExpr{Fun: &ast.FuncLit{
						Type: &ast.FuncType{Params: &ast.FieldList{}},
						Body: &ast.BlockStmt{List: []ast.Stmt{goExitDefer(), inner}},
					}}
				}
			}
		default:
			// x.Go(f) of errgroup needs no announcement: the instrumented
			// copy of errgroup announces its own go statement.
			out = append(out, yieldStmt(s.Pos()))
			out = append(out, touchStmts(s)...)
		}
		out = append(out, s)
	}
	return out
}

type visitor struct{}

func (visitor) Visit(n ast.Node) ast.Visitor {
	switch v := n.(type) {
	case *ast.SwitchStmt:
		walkClauses(v.Body)
		if v.Init != nil {
			ast.Walk(visitor{}, v.Init)
		}
		if v.Tag != nil {
			ast.Walk(visitor{}, v.Tag)
		}
		return nil
	case *ast.TypeSwitchStmt:
		walkClauses(v.Body)
		return nil
	case *ast.SelectStmt:
		walkClauses(v.Body)
		prioritiseDone(v)
		return nil
	case *ast.CallExpr:
		// once.Do(func() { ... }): the callback runs while sync.Once holds its (real) mutex. A task parked by the
		// scheduler in there would leave a second caller blocked on that mutex - not a durable block for synctest, so
		// the scheduler's Wait() would never return. No yield points inside such a callback: never park while a real
		// lock is held.
		if se, ok := v.Fun.(*ast.SelectorExpr); ok && se.Sel.Name == "Do" && len(v.Args) == 1 {
			if _, ok := v.Args[0].(*ast.FuncLit); ok {
				ast.Walk(visitor{}, v.Fun)
				return nil
			}
		}
		return visitor{}
	case *ast.BlockStmt:
		// children first (on the original statements), then insert.
		for _, s := range v.List {
			ast.Walk(visitor{}, s)
		}
		v.List = rewriteList(v.List)
		return nil
	}
	return visitor{}
}

// prioritiseDone removes the one random choice the Go runtime makes on behalf
// of instrumented code: a select with several READY cases picks one at random
// from a source no simulator can seed. That only happens here when a context
// is already cancelled on entry while another case is ready too. The select
//
//	select { case <-ctx.Done(): A; case ch <- v: B }
//
// becomes
//
//	select { case <-ctx.Done(): A; default: select { case <-ctx.Done(): A; case ch <- v: B } }
//
// i.e. one of the legal outcomes (cancellation wins) is always taken.
func prioritiseDone(sel *ast.SelectStmt) {
	var done *ast.CommClause
	for _, c := range sel.Body.List {
		cc := c.(*ast.CommClause)
		if cc.Comm == nil {
			return // already has a default
		}
		var rx ast.Expr
		switch s := cc.Comm.(type) {
		case *ast.ExprStmt:
			rx = s.X
		case *ast.AssignStmt:
			if len(s.Rhs) == 1 {
				rx = s.Rhs[0]
			}
		}
		if ue, ok := rx.(*ast.UnaryExpr); ok && ue.Op == token.ARROW {
			if ce, ok := ue.X.(*ast.CallExpr); ok {
				if se, ok := ce.Fun.(*ast.SelectorExpr); ok && se.Sel.Name == "Done" {
					done = cc
				}
			}
		}
	}
	if done == nil || len(sel.Body.List) < 2 {
		return
	}
	inner := &ast.SelectStmt{Body: &ast.BlockStmt{List: sel.Body.List}}
	sel.Body = &ast.BlockStmt{List: []ast.Stmt{
		&ast.CommClause{Comm: done.Comm, Body: done.Body},
		&ast.CommClause{Comm: nil, Body: []ast.Stmt{inner}},
	}}
}

// walkClauses instruments the bodies of case/comm clauses; the enclosing block
// of a switch/select must not receive statements itself.
func walkClauses(b *ast.BlockStmt) {
	for _, c := range b.List {
		switch cc := c.(type) {
		case *ast.CaseClause:
			for _, e := range cc.List {
				ast.Walk(visitor{}, e)
			}
			for _, s := range cc.Body {
				ast.Walk(visitor{}, s)
			}
			cc.Body = rewriteList(cc.Body)
		case *ast.CommClause:
			for _, s := range cc.Body {
				ast.Walk(visitor{}, s)
			}
			cc.Body = rewriteList(cc.Body)
		}
	}
}

// ---------------------------------------------------------------------------
// Map ranges. Go randomises map iteration with a runtime-private seed the
// simulator cannot own. Every `for k, v := range m` over a map is therefore
// rewritten to iterate xsim.Pairs(m): keys sorted, then permuted with a seed
// the simulator owns (sim.SetMapSeed). Entries deleted during the loop are
// skipped and current values are read, as the language specifies.

var (
	mapN    int
	mapStat int
)

func rewriteMapRanges(f *ast.File, info *types.Info) {
	ast.Inspect(f, func(n ast.Node) bool {
		rs, ok := n.(*ast.RangeStmt)
		if !ok {
			return true
		}
		tv, ok := info.Types[rs.X]
		if !ok {
			return true
		}
		if _, isMap := tv.Type.Underlying().(*types.Map); !isMap {
			return true
		}
		mapN++
		mapStat++
		kv := ast.NewIdent(fmt.Sprintf("xsimKV%d", mapN))
		xk, xv, xok := ast.NewIdent(fmt.Sprintf("xsimK%d", mapN)), ast.NewIdent(fmt.Sprintf("xsimV%d", mapN)), ast.NewIdent(fmt.Sprintf("xsimOK%d", mapN))
		blank := func(e ast.Expr) bool {
			id, ok := e.(*ast.Ident)
			return e == nil || (ok && id.Name == "_")
		}
		var pre []ast.Stmt
		get := &ast.CallExpr{Fun: &ast.SelectorExpr{X: kv, Sel: ast.NewIdent("Get")}}
		lhsK, lhsV := ast.Expr(ast.NewIdent("_")), ast.Expr(ast.NewIdent("_"))
		if rs.Tok == token.DEFINE {
			if !blank(rs.Key) {
				lhsK = rs.Key
			}
			if !blank(rs.Value) {
				lhsV = rs.Value
			}
			pre = append(pre, &ast.AssignStmt{Lhs: []ast.Expr{lhsK, lhsV, xok}, Tok: token.DEFINE, Rhs: []ast.Expr{get}})
			pre = append(pre, &ast.IfStmt{Cond: &ast.UnaryExpr{Op: token.NOT, X: xok}, Body: &ast.BlockStmt{List: []ast.Stmt{&ast.BranchStmt{Tok: token.CONTINUE}}}})
		} else {
			pre = append(pre, &ast.AssignStmt{Lhs: []ast.Expr{xk, xv, xok}, Tok: token.DEFINE, Rhs: []ast.Expr{get}})
			pre = append(pre, &ast.IfStmt{Cond: &ast.UnaryExpr{Op: token.NOT, X: xok}, Body: &ast.BlockStmt{List: []ast.Stmt{&ast.BranchStmt{Tok: token.CONTINUE}}}})
			// keep the unused temporaries used
			pre = append(pre, &ast.AssignStmt{Lhs: []ast.Expr{ast.NewIdent("_"), ast.NewIdent("_")}, Tok: token.ASSIGN, Rhs: []ast.Expr{xk, xv}})
			if !blank(rs.Key) {
				pre = append(pre, &ast.AssignStmt{Lhs: []ast.Expr{rs.Key}, Tok: token.ASSIGN, Rhs: []ast.Expr{xk}})
			}
			if !blank(rs.Value) {
				pre = append(pre, &ast.AssignStmt{Lhs: []ast.Expr{rs.Value}, Tok: token.ASSIGN, Rhs: []ast.Expr{xv}})
			}
		}
		rs.X = call("Pairs", rs.X)
		rs.Key, rs.Value, rs.Tok = ast.NewIdent("_"), kv, token.DEFINE
		rs.Body.List = append(pre, rs.Body.List...)
		return true
	})
}

func fatal(a ...any) {
	fmt.Fprintln(os.Stderr, append([]any{"instr:"}, a...)...)
	os.Exit(2)
}

func main() {
	flag.Parse()
	full := map[string]bool{}
	for _, fn := range flag.Args() {
		full[filepath.Clean(fn)] = true
	}
	maps := map[string]bool{}
	for _, fn := range strings.Split(*mapsOnly, ",") {
		if fn != "" {
			maps[filepath.Clean(fn)] = true
		}
	}
	byDir := map[string][]string{}
	var dirs []string
	for fn := range full {
		byDir[filepath.Dir(fn)] = append(byDir[filepath.Dir(fn)], fn)
	}
	for fn := range maps {
		if !full[fn] {
			byDir[filepath.Dir(fn)] = append(byDir[filepath.Dir(fn)], fn)
		}
	}
	for d := range byDir {
		dirs = append(dirs, d)
	}
	// one importer for all packages: dependencies are type-checked once
	imp := importer.ForCompiler(fset, "source", nil)
	for _, dir := range dirs {
		pkgs, err := parser.ParseDir(fset, dir, func(fi os.FileInfo) bool { return !strings.HasSuffix(fi.Name(), "_test.go") }, 0) // comments dropped on purpose
		if err != nil {
			fatal(err)
		}
		for _, pkg := range pkgs {
			var files []*ast.File
			var names []string
			for name, f := range pkg.Files {
				files = append(files, f)
				names = append(names, name)
			}
			info := &types.Info{Types: map[ast.Expr]types.TypeAndValue{}, Defs: map[*ast.Ident]types.Object{}, Uses: map[*ast.Ident]types.Object{}}
			conf := types.Config{Importer: imp, Error: func(error) {}}
			abs, _ := filepath.Abs(dir)
			conf.Check(abs, fset, files, info) // best effort: untyped ranges are left alone
			for i, f := range files {
				fn := filepath.Clean(names[i])
				if !full[fn] && !maps[fn] {
					continue
				}
				rewriteMapRanges(f, info)
				for _, kv := range strings.Split(*reimport, ",") {
					if old, nw, ok := strings.Cut(kv, "="); ok {
						for _, is := range f.Imports {
							if is.Path.Value == strconv.Quote(old) {
								is.Path.Value = strconv.Quote(nw)
							}
						}
					}
				}
				if full[fn] {
					locksetOn = false
					for _, lf := range strings.Split(*lockset, ",") {
						if lf != "" && filepath.Clean(lf) == fn {
							locksetOn = true
							collectGuarded(f)
							curInfo = info
							collectAliases(f, info)
						}
					}
					instrumentFile(f)
				} else {
					addImport(f, false)
				}
				var buf bytes.Buffer
				if err := printer.Fprint(&buf, token.NewFileSet(), f); err != nil {
					fatal(err)
				}
				if err := os.WriteFile(fn, buf.Bytes(), 0o644); err != nil {
					fatal(err)
				}
			}
		}
	}
	if *sitesOut != "" {
		b, _ := json.Marshal(sites)
		os.WriteFile(*sitesOut, b, 0o644)
	}
	fmt.Printf("instr: %d yield sites, %d map ranges in %d files\n", len(sites), mapStat, len(full)+len(maps))
}

// addImport imports the sim package as xsim and keeps both xsim and (if it is
// imported) sync referenced.
func addImport(f *ast.File, syncUnused bool) {
	imp := &ast.ImportSpec{Name: ast.NewIdent("xsim"), Path: &ast.BasicLit{Kind: token.STRING, Value: strconv.Quote(*simPath)}}
	gd := &ast.GenDecl{Tok: token.IMPORT, Specs: []ast.Spec{imp}}
	idx := 0
	for i, d := range f.Decls {
		if g, ok := d.(*ast.GenDecl); ok && g.Tok == token.IMPORT {
			idx = i + 1
		}
	}
	decls := append([]ast.Decl{}, f.Decls[:idx]...)
	decls = append(decls, gd)
	if syncUnused {
		decls = append(decls, &ast.GenDecl{Tok: token.VAR, Specs: []ast.Spec{&ast.ValueSpec{
			Names: []*ast.Ident{ast.NewIdent("_")},
			Type:  &ast.SelectorExpr{X: ast.NewIdent("sync"), Sel: ast.NewIdent("Once")},
		}}})
	}
	decls = append(decls, &ast.GenDecl{Tok: token.VAR, Specs: []ast.Spec{&ast.ValueSpec{
		Names:  []*ast.Ident{ast.NewIdent("_")},
		Values: []ast.Expr{&ast.SelectorExpr{X: ast.NewIdent("xsim"), Sel: ast.NewIdent("Yield")}},
	}}})
	decls = append(decls, f.Decls[idx:]...)
	f.Decls = decls
}

// instrumentFile inserts yields, goroutine announcements and sim mutexes.
func instrumentFile(f *ast.File) {
	usesSync := false
	// runtime.GOMAXPROCS(0) is a configuration the engine reads (width of the
	// planner's fan-out): route it through the simulator so that it is a
	// per-run knob instead of a property of the machine.
	ast.Inspect(f, func(n ast.Node) bool {
		ce, ok := n.(*ast.CallExpr)
		if !ok || len(ce.Args) != 1 {
			return true
		}
		se, ok := ce.Fun.(*ast.SelectorExpr)
		if !ok || se.Sel.Name != "GOMAXPROCS" {
			return true
		}
		if id, ok := se.X.(*ast.Ident); !ok || id.Name != "runtime" {
			return true
		}
		if bl, ok := ce.Args[0].(*ast.BasicLit); !ok || bl.Value != "0" {
			return true
		}
		inner := &ast.CallExpr{Fun: ce.Fun, Args: ce.Args}
		ce.Fun = &ast.SelectorExpr{X: ast.NewIdent("xsim"), Sel: ast.NewIdent("Procs")}
		ce.Args = []ast.Expr{inner}
		return false
	})
	ast.Inspect(f, func(n ast.Node) bool {
		if se, ok := n.(*ast.SelectorExpr); ok {
			if id, ok := se.X.(*ast.Ident); ok && id.Name == "sync" && id.Obj == nil {
				if se.Sel.Name == "Mutex" || se.Sel.Name == "RWMutex" || (*pools && se.Sel.Name == "Pool") {
					id.Name = "xsim"
				} else {
					usesSync = true
				}
			}
		}
		return true
	})
	for _, d := range f.Decls {
		if fd, ok := d.(*ast.FuncDecl); ok && fd.Body != nil {
			if *skipInit && fd.Name.Name == "init" && fd.Recv == nil {
				continue
			}
			ast.Walk(visitor{}, fd.Body)
		} else if gd, ok := d.(*ast.GenDecl); ok {
			ast.Inspect(gd, func(n ast.Node) bool {
				if fl, ok := n.(*ast.FuncLit); ok {
					ast.Walk(visitor{}, fl.Body)
					return false
				}
				return true
			})
		}
	}
	importsSync := false
	for _, is := range f.Imports {
		if is.Path.Value == `"sync"` {
			importsSync = true
		}
	}
	addImport(f, importsSync && !usesSync)
}
