module instr

go 1.24
